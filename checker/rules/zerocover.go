package rules

import (
	"fmt"
	"go/token"
	"sort"
	"strings"

	"golang.org/x/tools/go/ssa"

	"verif/checker/core"
)

// R-ZEROCOVER — proto decides whether a byte array is the zero value (and is therefore omitted
// from the message) with a word-at-a-time scan. Every byte must be looked at exactly: the word
// part covers 8*(len/8) bytes and the slice is advanced by that many, and each case K of the tail
// switch reads byte ranges whose union is [0, K).
func init() {
	Register(&Rule{
		ID:    "R-ZEROCOVER",
		Doc:   "proto.isZeroBytes: the word scan runs over n = len(b)/8 words and the slice is then advanced by n*8; in the tail switch on len(b), for every K in 1..7 the byte ranges read on the paths where len(b) == K (4-, 2- and 1-byte loads at constant offsets) cover [0,K) exactly, and 'true' without a read is returned only for K == 0; any other shape is undecided",
		Props: []string{"C03", "C12"},
		Min:   map[string]int{"C03": 8, "C12": 8},
		Run:   runZeroCover,
	})
}

func runZeroCover(c *core.Ctx) []core.Obligation {
	b := newOb(c, "R-ZEROCOVER")
	props := []string{"C03", "C12"}
	fn := c.Lookup("proto.isZeroBytes")
	if fn == nil {
		b.addP(props, core.Undecided, "zerocover", "-", "proto.isZeroBytes not found")
		return b.out
	}
	bp := bufParam(fn)
	widthOf := map[string]int64{"bto32": 4, "bto16": 2}

	// ---- word part
	var nWords ssa.Value // len(b)/8
	for _, blk := range fn.Blocks {
		for _, in := range blk.Instrs {
			if bo, ok := in.(*ssa.BinOp); ok && bo.Op == token.QUO {
				if k, isK := constInt(bo.Y); isK && k == 8 {
					if la, ok := lenArg(bo.X); ok && la == ssa.Value(bp) {
						nWords = bo
					}
				}
			}
			if bo, ok := in.(*ssa.BinOp); ok && bo.Op == token.SHR {
				if k, isK := constInt(bo.Y); isK && k == 3 {
					if la, ok := lenArg(bo.X); ok && la == ssa.Value(bp) {
						nWords = bo
					}
				}
			}
		}
	}
	key := "zerocover:word-advance"
	if nWords == nil {
		b.addP(props, core.Undecided, key, c.FuncPos(fn), "no n = len(b)/8 found: the word-at-a-time part has another shape, which this rule cannot decide")
	} else {
		// the word slice has Len n, and b is resliced from n*8
		lenOK, advOK := false, false
		var adv ssa.Instruction
		for _, blk := range fn.Blocks {
			for _, in := range blk.Instrs {
				switch x := in.(type) {
				case *ssa.Store:
					if fa, ok := x.Addr.(*ssa.FieldAddr); ok && fieldNameOf(fa) == "Len" && x.Val == nWords {
						lenOK = true
					}
				case *ssa.Slice:
					if x.X == ssa.Value(bp) && x.Low != nil && x.High == nil {
						adv = x
						if mul, ok := x.Low.(*ssa.BinOp); ok {
							k, isK := constInt(mul.Y)
							if (mul.Op == token.MUL && isK && k == 8 && mul.X == nWords) || (mul.Op == token.SHL && isK && k == 3 && mul.X == nWords) {
								advOK = true
							}
						}
					}
				}
			}
		}
		switch {
		case adv == nil:
			b.addP(props, core.Undecided, key, c.FuncPos(fn), "the slice is not advanced past the words that were scanned")
		case !lenOK:
			b.addP(props, core.Violation, key, c.InstrPos(adv), "the word scan does not run over exactly len(b)/8 words")
		case !advOK:
			b.addP(props, core.Violation, key, c.InstrPos(adv), "after scanning n = len(b)/8 words the slice is not advanced by n*8 bytes: the bytes between the advance and the real end of the words are examined twice and the last len(b)%8 bytes never, so an array whose only non-zero bytes are in its tail is treated as zero and dropped from the message")
		default:
			b.addP(props, core.Discharged, key, c.InstrPos(adv), "n = len(b)/8 words scanned, slice advanced by n*8")
		}
	}

	// ---- tail switch: the value switched on is len(x) of the advanced slice (a φ of b and b[n*8:])
	var lenv ssa.Value
	for _, blk := range fn.Blocks {
		for _, in := range blk.Instrs {
			bo, ok := in.(*ssa.BinOp)
			if !ok || bo.Op != token.EQL {
				continue
			}
			if _, isLen := lenArg(bo.X); isLen {
				if k, isK := constInt(bo.Y); isK && k >= 1 && k <= 7 {
					lenv = bo.X
				}
			}
		}
	}
	if lenv == nil {
		b.addP(props, core.Undecided, "zerocover:tail", c.FuncPos(fn), "no switch on the remaining length found: the tail has another shape, which this rule cannot decide")
		return b.out
	}
	tail, _ := lenArg(lenv)
	universe := []int64{0, 1, 2, 3, 4, 5, 6, 7}
	flow := constFlow(fn, lenv, universe)
	cover := map[int64][][2]int64{}
	for _, blk := range fn.Blocks {
		set, ok := flow[blk]
		if !ok || popcount(set) != 1 || set&(1<<8) != 0 {
			continue
		}
		var k int64
		for i := range universe {
			if set == 1<<uint(i) {
				k = int64(i)
			}
		}
		for _, in := range blk.Instrs {
			switch x := in.(type) {
			case *ssa.Call:
				f := staticCallee(x.Common())
				if f == nil || widthOf[f.Name()] == 0 || len(x.Common().Args) != 1 {
					continue
				}
				off, ok := offsetInto(x.Common().Args[0], tail)
				if !ok {
					cover[k] = append(cover[k], [2]int64{-1, -1})
					continue
				}
				cover[k] = append(cover[k], [2]int64{off, off + widthOf[f.Name()]})
			case *ssa.IndexAddr:
				if x.X != tail {
					continue
				}
				if i, ok := constInt(x.Index); ok {
					cover[k] = append(cover[k], [2]int64{i, i + 1})
				} else {
					cover[k] = append(cover[k], [2]int64{-1, -1})
				}
			}
		}
	}
	for k := int64(1); k <= 7; k++ {
		key := fmt.Sprintf("zerocover:tail:%d", k)
		rs := cover[k]
		sort.Slice(rs, func(i, j int) bool { return rs[i][0] < rs[j][0] })
		pos, okc := int64(0), true
		var desc []string
		for _, r := range rs {
			desc = append(desc, fmt.Sprintf("[%d,%d)", r[0], r[1]))
			if r[0] != pos {
				okc = false
			}
			pos = r[1]
		}
		if okc && pos == k {
			b.addP(props, core.Discharged, key, c.FuncPos(fn), fmt.Sprintf("reads %s", strings.Join(desc, " ")))
		} else {
			b.addP(props, core.Violation, key, c.FuncPos(fn), fmt.Sprintf("when %d bytes remain, the reads %v do not cover [0,%d) exactly: a non-zero byte outside them goes unnoticed (the array is treated as zero and omitted), or a read runs past the slice", k, desc, k))
		}
	}
	return b.out
}

// offsetInto: v is base or base[k:] for a constant k; returns k.
func offsetInto(v, base ssa.Value) (int64, bool) {
	if v == base {
		return 0, true
	}
	if sl, ok := v.(*ssa.Slice); ok && sl.X == base && sl.High == nil && sl.Low != nil {
		if k, ok := constInt(sl.Low); ok {
			return k, true
		}
	}
	return 0, false
}
