package rules

import (
	"fmt"
	"go/types"
	"sort"
	"strings"

	"golang.org/x/tools/go/ssa"

	"verif/checker/core"
)

// R-REWRITEKIND — wherever proto produces or consumes a scalar by its proto.Kind (the template
// rewriters, the bit-or rewriter, the Type of a struct field), the wire form used agrees with
// the one table that defines the kinds: varint for int/uint, zig-zag varint for sint only,
// 4/8 little-endian bytes without zig-zag for fixed and sfixed.
func init() {
	Register(&Rule{
		ID:    "R-REWRITEKIND",
		Doc:   "dataflow of the possible proto.Kind values along the branch edges of parseRewriteTemplate and bitOrRW.Rewrite; on the paths where the kind is known, the FieldNumber constructor called (Int32/Int64/Uint32/Uint64 = varint, Fixed32/Fixed64, Float32/Float64) and the presence of encodeZigZag*/decodeZigZag*/decodeLE* agree with the kind table: zig-zag exactly for Sint32/Sint64, fixed width exactly for Fix*/Sfix*/Float/Double; structTypeOf maps (fixed32|fixed64 tag, uint|int base kind) to Fix*/Sfix*",
		Props: []string{"C19", "C12"},
		Min:   map[string]int{"C19": 20, "C12": 4},
		Run:   runRewriteKind,
	})
}

type kindWant struct {
	wire   string // varint | fixed32 | fixed64
	zigzag bool
}

var protoKindTable = map[string]kindWant{
	"Int32": {"varint", false}, "Int64": {"varint", false}, "Uint32": {"varint", false}, "Uint64": {"varint", false},
	"Sint32": {"varint", true}, "Sint64": {"varint", true},
	"Fix32": {"fixed32", false}, "Sfix32": {"fixed32", false}, "Float": {"fixed32", false},
	"Fix64": {"fixed64", false}, "Sfix64": {"fixed64", false}, "Double": {"fixed64", false},
}

// wireOfCalls classifies what a set of callee names writes.
func wireOfCalls(names map[string]bool) (wire string, zigzagEnc, zigzagDec, le32, le64 bool) {
	for n := range names {
		switch n {
		case "Int32", "Int64", "Uint32", "Uint64", "AppendVarint":
			if wire == "" {
				wire = "varint"
			}
		case "Fixed32", "Float32", "AppendFixed32":
			wire = "fixed32"
		case "Fixed64", "Float64", "AppendFixed64":
			wire = "fixed64"
		case "encodeZigZag32", "encodeZigZag64":
			zigzagEnc = true
		case "decodeZigZag32", "decodeZigZag64":
			zigzagDec = true
		case "decodeLE32":
			le32 = true
		case "decodeLE64":
			le64 = true
		}
	}
	return
}

func calleeNames(fn *ssa.Function, blocks map[*ssa.BasicBlock]bool) map[string]bool {
	out := map[string]bool{}
	for _, blk := range fn.Blocks {
		if blocks != nil && !blocks[blk] {
			continue
		}
		for _, in := range blk.Instrs {
			if ci, ok := in.(ssa.CallInstruction); ok {
				if f := staticCallee(ci.Common()); f != nil {
					n := f.Name()
					if i := strings.Index(n, "["); i > 0 {
						n = n[:i]
					}
					out[n] = true
				}
			}
		}
	}
	return out
}

func isProtoKind(v ssa.Value) bool {
	n, ok := v.Type().(*types.Named)
	return ok && n.Obj().Name() == "Kind" && n.Obj().Pkg() != nil && n.Obj().Pkg().Name() == "proto"
}

func runRewriteKind(c *core.Ctx) []core.Obligation {
	b := newOb(c, "R-REWRITEKIND")
	props := []string{"C19"}
	var names []string
	for n := range protoKindTable {
		names = append(names, n)
	}
	sort.Strings(names)
	var universe []int64
	idx := map[int64]string{}
	for _, n := range names {
		if v, ok := protoConst(c, n); ok {
			universe = append(universe, v)
			idx[v] = n
		}
	}
	if len(universe) != len(names) {
		b.addP(props, core.Undecided, "rewritekind", "-", "proto.Kind constants not found")
		return b.out
	}
	kindAt := func(fn *ssa.Function) map[*ssa.BasicBlock]map[string]bool {
		out := map[*ssa.BasicBlock]map[string]bool{}
		for _, blk := range fn.Blocks {
			for _, in := range blk.Instrs {
				v, ok := in.(ssa.Value)
				if !ok || !isProtoKind(v) {
					continue
				}
				if _, isCall := in.(*ssa.Call); !isCall {
					continue
				}
				flow := constFlow(fn, v, universe)
				for bb, set := range flow {
					if set == 0 || set&(1<<uint(len(universe))) != 0 || popcount(set) > 3 {
						continue
					}
					for i, k := range universe {
						if set&(1<<uint(i)) != 0 {
							if out[bb] == nil {
								out[bb] = map[string]bool{}
							}
							out[bb][idx[k]] = true
						}
					}
				}
			}
		}
		return out
	}

	// 1. template rewriters: parseRewriteTemplate dispatches Kind -> parseRewriteTemplateX
	if fn := c.Lookup("proto.parseRewriteTemplate"); fn != nil {
		ka := kindAt(fn)
		seen := map[string]bool{}
		for _, blk := range fn.Blocks {
			kinds := ka[blk]
			if len(kinds) == 0 {
				continue
			}
			for _, in := range blk.Instrs {
				ci, ok := in.(ssa.CallInstruction)
				if !ok {
					continue
				}
				f := staticCallee(ci.Common())
				if f == nil || !strings.HasPrefix(f.Name(), "parseRewriteTemplate") || f.Blocks == nil {
					continue
				}
				wire, zz, _, _, _ := wireOfCalls(calleeNames(f, nil))
				for k := range kinds {
					key := "rewritekind:template:" + k
					if seen[key] {
						continue
					}
					seen[key] = true
					want := protoKindTable[k]
					switch {
					case wire != want.wire:
						b.addP(props, core.Violation, key, c.InstrPos(ci), fmt.Sprintf("a template value for a %s field is written by %s as %s, but the codec of that kind reads %s: the rewritten message does not decode", k, f.Name(), wire, want.wire))
					case zz != want.zigzag:
						b.addP(props, core.Violation, key, c.InstrPos(ci), fmt.Sprintf("a template value for a %s field is written by %s with zig-zag=%v, but that kind is zig-zag encoded: %v (only sint32/sint64 are): the field decodes to a different value", k, f.Name(), zz, want.zigzag))
					case want.zigzag && signedCtor(calleeNames(f, nil)):
						b.addP(props, core.Violation, key, c.InstrPos(ci), fmt.Sprintf("a template value for a %s field is zig-zag encoded by %s and then handed to a signed varint constructor (Int32/Int64), which sign-extends: zig-zag values with the top bit set (|v| >= 2^30 for sint32) become ten-byte varints that the codec rejects as overflowing", k, f.Name()))
					case k == "Sint32" && !zigzag32OK(f, nil):
						b.addP(props, core.Violation, key, c.InstrPos(ci), fmt.Sprintf("a template value for a sint32 field is zig-zag encoded by %s at 64 bits from a value that is not sign-extended through int32: a negative value becomes a varint above 32 bits, which the codec rejects", f.Name()))
					default:
						b.addP(props, core.Discharged, key, c.InstrPos(ci), fmt.Sprintf("%s writes %s, zig-zag=%v", f.Name(), wire, zz))
					}
					// the template value is parsed into a Go variable of the field's own type: a
					// wider one accepts values the field cannot hold (a uint32 field given 2^32+5
					// yields a message its codec rejects), a narrower one rounds them (a double
					// parsed as float32: 0.1 becomes 0.10000000149011612)
					tkey := "rewritekind:template-type:" + k
					wantT := map[string]string{"Int32": "int32", "Int64": "int64", "Sint32": "int32", "Sint64": "int64", "Uint32": "uint32", "Uint64": "uint64", "Fix32": "uint32", "Fix64": "uint64", "Sfix32": "int32", "Sfix64": "int64", "Float": "float32", "Double": "float64"}[k]
					gotT := ""
					for _, ci2 := range callsIn(f) {
						if calleeName(ci2.Common()) != "github.com/segmentio/encoding/json.Unmarshal" || len(ci2.Common().Args) != 2 {
							continue
						}
						if mi, ok := ci2.Common().Args[1].(*ssa.MakeInterface); ok {
							if pt, ok := mi.X.Type().Underlying().(*types.Pointer); ok {
								gotT = pt.Elem().String()
							}
						}
					}
					switch {
					case wantT == "":
					case gotT == "":
						b.addP(props, core.Undecided, tkey, c.FuncPos(f), f.Name()+" does not parse the template value with json.Unmarshal into a local variable")
					case gotT != wantT:
						b.addP(props, core.Violation, tkey, c.InstrPos(ci), fmt.Sprintf("the template value of a %s field is parsed by %s into a %s, the field holds a %s: values the field cannot represent are accepted and written (the rewritten message no longer decodes into the field), or representable values are rounded before being written", k, f.Name(), gotT, wantT))
					default:
						b.addP(props, core.Discharged, tkey, c.FuncPos(f), "parsed as "+gotT)
					}
				}
			}
		}
		for _, k := range names {
			if !seen["rewritekind:template:"+k] {
				b.addP(props, core.Violation, "rewritekind:template:"+k, c.FuncPos(fn), "parseRewriteTemplate has no case for kind "+k+": a template cannot replace a field of that kind")
			}
		}
	} else {
		b.addP(props, core.Undecided, "rewritekind:template", "-", "proto.parseRewriteTemplate not found")
	}

	// 2. the bit-or rewriter
	if fn := c.Lookup("proto.(bitOrRW).Rewrite"); fn != nil {
		ka := kindAt(fn)
		// group the blocks of each kind
		blocksOf := map[string]map[*ssa.BasicBlock]bool{}
		for blk, kinds := range ka {
			for k := range kinds {
				if blocksOf[k] == nil {
					blocksOf[k] = map[*ssa.BasicBlock]bool{}
				}
				blocksOf[k][blk] = true
			}
		}
		for _, k := range names {
			want := protoKindTable[k]
			if k == "Float" || k == "Double" {
				continue // not integers: rejected by BitOrRewriter
			}
			key := "rewritekind:bitor:" + k
			blocks := blocksOf[k]
			if len(blocks) == 0 {
				b.addP(props, core.Violation, key, c.FuncPos(fn), "bitOrRW.Rewrite has no path specific to kind "+k)
				continue
			}
			wire, zzEnc, zzDec, le32, le64 := wireOfCalls(calleeNames(fn, blocks))
			var problems []string
			if wire != want.wire {
				problems = append(problems, fmt.Sprintf("writes %q where the kind is %s", wire, want.wire))
			}
			if zzEnc != want.zigzag {
				problems = append(problems, fmt.Sprintf("zig-zag encodes the result: %v, required: %v", zzEnc, want.zigzag))
			}
			if zzDec != want.zigzag {
				problems = append(problems, fmt.Sprintf("zig-zag decodes the input: %v, required: %v (the mask must be or'ed into the value, not into its zig-zag form)", zzDec, want.zigzag))
			}
			if want.zigzag && signedCtorAfterZigZag(fn, blocks) {
				problems = append(problems, "hands the zig-zag encoded result to a signed varint constructor (Int32/Int64), which sign-extends values with the top bit set")
			}
			if k == "Sint32" && zzEnc && !zigzag32OK(fn, blocks) {
				problems = append(problems, "zig-zag encodes the result at 64 bits from a value that is not sign-extended through int32: with an unsigned 32-bit mask type a negative field value becomes a varint above 32 bits, which the codec rejects")
			}
			if (want.wire == "fixed32") != le32 || (want.wire == "fixed64") != le64 {
				problems = append(problems, fmt.Sprintf("reads the input as little-endian 32/64: %v/%v, kind is %s", le32, le64, want.wire))
			}
			if len(problems) > 0 {
				b.addP(props, core.Violation, key, c.FuncPos(fn), "bitOrRW.Rewrite for kind "+k+" "+strings.Join(problems, "; "))
			} else {
				b.addP(props, core.Discharged, key, c.FuncPos(fn), fmt.Sprintf("input and output use %s, zig-zag=%v", want.wire, want.zigzag))
			}
		}
	} else {
		b.addP(props, core.Undecided, "rewritekind:bitor", "-", "proto.(bitOrRW[T]).Rewrite not found")
	}

	// 3. structTypeOf: fixed tags give Fix/Sfix types
	if fn := c.Lookup("proto.structTypeOf"); fn != nil {
		fx32, _ := protoConst(c, "Fixed32")
		fx64, _ := protoConst(c, "Fixed64")
		covered := map[[2]int64]int64{}
		// wire type values: loads of field wireType
		var wvals, kvals []ssa.Value
		for _, blk := range fn.Blocks {
			for _, in := range blk.Instrs {
				if f, ok := fieldOfLoad2(in); ok && strings.HasSuffix(f, ".wireType") {
					wvals = append(wvals, in.(ssa.Value))
				}
				if call, ok := in.(*ssa.Call); ok {
					if g := staticCallee(call.Common()); g != nil && g.Name() == "baseKindOf" {
						kvals = append(kvals, call)
					}
				}
			}
		}
		for _, blk := range fn.Blocks {
			for _, in := range blk.Instrs {
				ia, ok := in.(*ssa.IndexAddr)
				if !ok {
					continue
				}
				g, ok := ia.X.(*ssa.Global)
				if !ok || g.Name() != "primitiveTypes" {
					continue
				}
				pk, ok := constInt(ia.Index)
				if !ok {
					continue
				}
				for _, wv := range wvals {
					ws := constFlow(fn, wv, []int64{fx32, fx64})[blk]
					for _, kv := range kvals {
						ks := kindFlow(fn, kv)[blk]
						if popcount(ws) != 1 || ws == 4 || popcount(uint32(ks)) != 1 {
							continue
						}
						w := fx32
						if ws == 2 {
							w = fx64
						}
						for k := int64(0); k < 27; k++ {
							if ks == 1<<uint(k) {
								covered[[2]int64{w, k}] = pk
							}
						}
					}
				}
			}
		}
		for _, want := range []struct {
			wire  int64
			wname string
			kind  int64
			pkind string
		}{{fx32, "fixed32", 10, "Fix32"}, {fx32, "fixed32", 5, "Sfix32"}, {fx64, "fixed64", 11, "Fix64"}, {fx64, "fixed64", 6, "Sfix64"}} {
			key := fmt.Sprintf("rewritekind:type:%s:%s", want.wname, kindNames[want.kind])
			wantV, _ := protoConst(c, want.pkind)
			got, ok := covered[[2]int64{want.wire, want.kind}]
			switch {
			case ok && got == wantV:
				b.addP([]string{"C19", "C12"}, core.Discharged, key, c.FuncPos(fn), "the field's Type is "+want.pkind)
			case !ok:
				b.addP([]string{"C19", "C12"}, core.Violation, key, c.FuncPos(fn), fmt.Sprintf("structTypeOf ignores a %s tag on a %s field: its Type says varint while the codec reads and writes fixed-width bytes, so a Rewriter built from the Type produces a message that no longer decodes", want.wname, kindNames[want.kind]))
			default:
				b.addP([]string{"C19", "C12"}, core.Violation, key, c.FuncPos(fn), fmt.Sprintf("structTypeOf maps a %s tag on a %s field to primitive type %d, expected %s", want.wname, kindNames[want.kind], got, want.pkind))
			}
		}
	} else {
		b.addP(props, core.Undecided, "rewritekind:type", "-", "proto.structTypeOf not found")
	}
	// 4. the signed builders widen by sign extension: FieldNumber.Int32(-5) is the ten-byte varint
	// of -5 as a 64-bit two's complement number (what every protobuf implementation writes for a
	// negative int32), not the five bytes of its 32-bit pattern, which an int32 field rejects
	for _, name := range []string{"Int32", "Int"} {
		key := "rewritekind:builder-sign-extends:" + name
		fn := c.Lookup("proto.(FieldNumber)." + name)
		if fn == nil || len(fn.Params) < 2 {
			b.addP(props, core.Undecided, key, "-", "proto.(FieldNumber)."+name+" not found")
			continue
		}
		v := fn.Params[1]
		bad, n := "", 0
		for _, ref := range *v.Referrers() {
			cv, ok := ref.(*ssa.Convert)
			if !ok {
				continue
			}
			n++
			if bt, ok := cv.Type().Underlying().(*types.Basic); !ok || !(bt.Kind() == types.Int64 || bt.Kind() == types.Uint64) {
				bad = c.InstrPos(cv)
			}
		}
		switch {
		case n == 0:
			b.addP(props, core.Undecided, key, c.FuncPos(fn), "the value is not converted in "+name)
		case bad != "":
			b.addP(props, core.Violation, key, bad, fmt.Sprintf("FieldNumber.%s converts its signed argument to a narrower or same-width type before widening it to the 64 bits of a varint: a negative value is written as the varint of its 32-bit pattern (-5 as 4294967291) instead of being sign-extended; Unmarshal rejects it for an int32 field (integer overflow) — a template or BitOr rewriter that sets a negative int32 produces an undecodable message", name))
		default:
			b.addP(props, core.Discharged, key, c.FuncPos(fn), "the signed argument is widened to 64 bits directly")
		}
	}
	return b.out
}

// signedCtor: the callees include a signed varint constructor and no unsigned one.
func signedCtor(names map[string]bool) bool {
	return (names["Int32"] || names["Int64"]) && !(names["Uint32"] || names["Uint64"])
}

// signedCtorAfterZigZag: an Int32/Int64 constructor call whose argument derives from an
// encodeZigZag* call, within the given blocks.
func signedCtorAfterZigZag(fn *ssa.Function, blocks map[*ssa.BasicBlock]bool) bool {
	for _, blk := range fn.Blocks {
		if blocks != nil && !blocks[blk] {
			continue
		}
		for _, in := range blk.Instrs {
			call, ok := in.(*ssa.Call)
			if !ok {
				continue
			}
			f := staticCallee(call.Common())
			if f == nil || (f.Name() != "Int32" && f.Name() != "Int64") {
				continue
			}
			for _, a := range call.Call.Args {
				if dependsOn(a, func(x ssa.Value) bool {
					c2, isC := x.(*ssa.Call)
					if !isC {
						return false
					}
					g := staticCallee(c2.Common())
					return g != nil && strings.HasPrefix(g.Name(), "encodeZigZag")
				}) {
					return true
				}
			}
		}
	}
	return false
}

// zigzag32OK: within the given blocks of fn (all when nil), a sint32 value is zig-zag encoded at
// 32 bits: by encodeZigZag32, or by encodeZigZag64 applied to a value converted from int32.
func zigzag32OK(fn *ssa.Function, blocks map[*ssa.BasicBlock]bool) bool {
	ok := true
	for _, blk := range fn.Blocks {
		if blocks != nil && !blocks[blk] {
			continue
		}
		for _, in := range blk.Instrs {
			call, isCall := in.(*ssa.Call)
			if !isCall {
				continue
			}
			f := staticCallee(call.Common())
			if f == nil || f.Name() != "encodeZigZag64" || len(call.Call.Args) != 1 {
				continue
			}
			v := call.Call.Args[0]
			through32 := false
			for i := 0; i < 6; i++ {
				if bt, isB := v.Type().Underlying().(*types.Basic); isB && bt.Kind() == types.Int32 {
					through32 = true
					break
				}
				switch x := v.(type) {
				case *ssa.Convert:
					v = x.X
					continue
				case *ssa.ChangeType:
					v = x.X
					continue
				}
				break
			}
			if !through32 {
				ok = false
			}
		}
	}
	return ok
}

func fieldOfLoad2(in ssa.Instruction) (string, bool) {
	v, ok := in.(ssa.Value)
	if !ok {
		return "", false
	}
	return fieldOfLoad(v)
}
