package rules

import (
	"fmt"
	"go/token"
	"go/types"
	"math/big"
	"sort"
	"strings"

	"golang.org/x/tools/go/ssa"

	"verif/checker/core"
)

// R-SCANSTART — a scanning loop starts where the text it is responsible for starts.
//
//	marker:  "at least one digit" tests of the form i == start, where i is the cursor of a scanning
//	         loop, compare against the cursor's value on entry to that loop (not a value taken
//	         before an optional sign was skipped);
//	string:  the loop of parseString that rejects control characters starts at the byte after the
//	         opening quote, so no prefix of the string body escapes classification.
func init() {
	Register(&Rule{
		ID:    "R-SCANSTART",
		Doc:   "for every scanning loop of the json parser whose cursor is compared for equality with a saved start marker, the marker is the cursor's value on the loop's entry edge; the control-character loop of parseString starts at constant offset 1",
		Props: []string{"C05", "C02", "C11", "C17"},
		Min:   map[string]int{"C05": 1, "C02": 1, "C11": 1, "C17": 1},
		Run:   runScanStart,
	})
}

// loopPhiEntry: v is a φ at a loop header with exactly one non-back-edge input; returns that input.
func loopPhiEntry(v ssa.Value) (ssa.Value, bool) {
	phi, ok := v.(*ssa.Phi)
	if !ok {
		return nil, false
	}
	blk := phi.Block()
	var entry ssa.Value
	n, back := 0, 0
	for i, p := range blk.Preds {
		if blk.Dominates(p) {
			back++
			continue
		}
		n++
		entry = phi.Edges[i]
	}
	if back == 0 || n != 1 {
		return nil, false
	}
	return entry, true
}

func runScanStart(c *core.Ctx) []core.Obligation {
	b := newOb(c, "R-SCANSTART")
	props := []string{"C05", "C02", "C11", "C17"}
	var fns []*ssa.Function
	for _, fn := range c.RepoFunctions() {
		n := shortName(fn)
		if fn.Blocks != nil && fn.Synthetic == "" && strings.HasPrefix(n, "json.(decoder).parse") {
			fns = append(fns, fn)
		}
	}
	sort.Slice(fns, func(i, j int) bool { return shortName(fns[i]) < shortName(fns[j]) })
	for _, fn := range fns {
		name := shortName(fn)
		k := 0
		for _, blk := range fn.Blocks {
			for _, in := range blk.Instrs {
				bo, ok := in.(*ssa.BinOp)
				if !ok || (bo.Op != token.EQL && bo.Op != token.NEQ) {
					continue
				}
				if bt, ok := bo.X.Type().Underlying().(*types.Basic); !ok || bt.Kind() != types.Int {
					continue
				}
				for _, pair := range [][2]ssa.Value{{bo.X, bo.Y}, {bo.Y, bo.X}} {
					cur, m := pair[0], pair[1]
					entry, isLoop := loopPhiEntry(cur)
					if !isLoop {
						continue
					}
					if _, isK := m.(*ssa.Const); isK {
						continue
					}
					if _, isLen := lenArg(m); isLen {
						continue
					}
					if _, mLoop := loopPhiEntry(m); mLoop {
						continue
					}
					k++
					key := fmt.Sprintf("marker:%s#%d", name, k)
					if stripConv(entry) == stripConv(m) {
						b.addP(props, core.Discharged, key, c.InstrPos(bo), "the emptiness test compares the cursor with its value on entry to the scanning loop")
					} else {
						b.addP(props, core.Violation, key, c.InstrPos(bo), fmt.Sprintf("%s tests 'no character consumed' by comparing the loop cursor with a marker that is not the cursor's value on entry to the loop (it was saved before an optional prefix such as the exponent sign was skipped): once the prefix is present the test can no longer fire, and an empty digit sequence (\"1e+\") is accepted", name))
					}
					break
				}
			}
		}
	}

	// parseString's control-character loop
	if fn := c.Lookup("json.(decoder).parseString"); fn != nil {
		bp := bufParam(fn)
		n := 0
		for _, blk := range fn.Blocks {
			for _, in := range blk.Instrs {
				cmp, ok := in.(*ssa.BinOp)
				if !ok || cmp.Op != token.LSS {
					continue
				}
				if kk, ok := constInt(cmp.Y); !ok || kk != 0x20 {
					continue
				}
				ld, ok := stripConv(cmp.X).(*ssa.UnOp)
				if !ok {
					continue
				}
				ia, ok := ld.X.(*ssa.IndexAddr)
				if !ok || bp == nil || !derivesFromValue(ia.X, bp) {
					continue
				}
				// the index is the loop cursor (possibly the φ merging the escape branch)
				idx := ia.Index
				var entry ssa.Value
				seen := map[ssa.Value]bool{}
				var find func(v ssa.Value) bool
				find = func(v ssa.Value) bool {
					if v == nil || seen[v] {
						return false
					}
					seen[v] = true
					if e, ok := loopPhiEntry(v); ok {
						entry = e
						return true
					}
					switch x := v.(type) {
					case *ssa.Phi:
						for _, e := range x.Edges {
							if find(e) {
								return true
							}
						}
					case *ssa.BinOp:
						return find(x.X)
					}
					return false
				}
				n++
				key := "string:control-loop-start"
				if !find(idx) {
					b.addP(props, core.Undecided, key, c.InstrPos(cmp), "the control-character test is not inside a loop over the string body")
					continue
				}
				if kk, ok := constInt(entry); ok && kk == 1 {
					b.addP(props, core.Discharged, key, c.InstrPos(cmp), "the loop that rejects control characters starts at the byte after the opening quote")
				} else {
					b.addP(props, core.Violation, key, c.InstrPos(cmp), "the only loop of parseString that rejects raw control characters no longer starts at offset 1: the skipped prefix of the string body is classified by nothing (the fast path's ValidPrint result was negative or skipped), so strings with a control character before the resume point are accepted")
				}
			}
		}
		if n == 0 {
			b.addP(props, core.Undecided, "string:control-loop-start", c.FuncPos(fn), "no comparison of a string byte with 0x20 found in parseString")
		}
	} else {
		b.addP(props, core.Undecided, "string:control-loop-start", "-", "json.(decoder).parseString not found")
	}
	return b.out
}

// R-REMAINDER — a parser's remainder is never dropped: every call of a json parse function that
// returns (value, remainder, ...) uses the remainder (continues parsing from it, tests that it is
// empty, returns it). A validation that ignores the remainder accepts "1 x" as "1".
func init() {
	Register(&Rule{
		ID:    "R-REMAINDER",
		Doc:   "every call site of a json.decoder parse*/ json parse helper whose second result is the unconsumed input extracts that result and uses it (another parse call, len()/skipSpaces test, return, store); leading whitespace is skipped before validating the output of user MarshalJSON methods",
		Props: []string{"C01", "C05", "C14", "C02", "C11"},
		Min:   map[string]int{"C01": 3, "C05": 20, "C14": 3, "C02": 20, "C11": 2},
		Run:   runRemainder,
	})
}

// remainderDroppedOK: call sites where the remainder is irrelevant, with the reason.
var remainderDroppedOK = map[string]string{
	"remainder:json.(*Tokenizer).Int:parseInt":                          "the input is t.Value, a single token already delimited by the tokenizer",
	"remainder:json.(*Tokenizer).Uint:parseUint":                        "the input is t.Value, a single token already delimited by the tokenizer",
	"remainder:json.(*Tokenizer).String:parseStringUnquote":             "the input is t.Value, a single token already delimited by the tokenizer",
	"remainder:json.(decoder).decodeDynamicNumber:parseNumber":          "pre-scan for the number kind only; the value is decoded, and its remainder returned, by the decode call that follows",
	"remainder:json.(decoder).decodeFromStringToInt:parseNumber#2":      "runs after the decode already failed, only to choose which error to return",
	"remainder:json.(decoder).decodeFromStringToInt:parseValue":         "runs after the decode already failed, only to choose which error to return",
	"remainder:json.(decoder).decodeTextUnmarshaler:parseStringUnquote": "the input is exactly the string value delimited by the preceding parseValue",
}

func runRemainder(c *core.Ctx) []core.Obligation {
	b := newOb(c, "R-REMAINDER")
	var fns []*ssa.Function
	for _, fn := range c.RepoFunctions() {
		if fn.Blocks != nil && fn.Synthetic == "" && strings.HasPrefix(shortName(fn), "json.") {
			fns = append(fns, fn)
		}
	}
	sort.Slice(fns, func(i, j int) bool { return shortName(fns[i]) < shortName(fns[j]) })
	for _, fn := range fns {
		name := shortName(fn)
		props := []string{"C05", "C02"}
		switch {
		case strings.HasPrefix(name, "json.(encoder)"):
			props = []string{"C01", "C05", "C14"}
		case strings.Contains(name, "Decoder") || strings.Contains(name, "Tokenizer"):
			props = []string{"C11", "C05", "C02"}
		}
		kn := map[string]int{}
		for _, ci := range callsIn(fn) {
			call, ok := ci.(*ssa.Call)
			if !ok {
				continue
			}
			callee := staticCallee(call.Common())
			if callee == nil || !c.InRepo(callee) || !strings.HasPrefix(callee.Name(), "parse") {
				continue
			}
			res := callee.Signature.Results()
			if res.Len() < 2 {
				continue
			}
			// the remainder: the []byte result that follows the value
			ri := -1
			for i := 1; i < res.Len(); i++ {
				if sl, ok := res.At(i).Type().Underlying().(*types.Slice); ok {
					if bt, ok := sl.Elem().Underlying().(*types.Basic); ok && bt.Kind() == types.Uint8 {
						ri = i
						break
					}
				}
			}
			if ri < 0 {
				continue
			}
			kn[callee.Name()]++
			key := fmt.Sprintf("remainder:%s:%s", name, callee.Name())
			if kn[callee.Name()] > 1 {
				key = fmt.Sprintf("%s#%d", key, kn[callee.Name()])
			}
			used := false
			for _, ref := range *call.Referrers() {
				if ex, ok := ref.(*ssa.Extract); ok && ex.Index == ri && len(*ex.Referrers()) > 0 {
					used = true
				}
			}
			switch {
			case used:
				b.addP(props, core.Discharged, key, c.InstrPos(call), "the unconsumed input is used")
			case remainderDroppedOK[key] != "":
				b.addP(props, core.Discharged, key, c.InstrPos(call), "remainder dropped: "+remainderDroppedOK[key])
			default:
				b.addP(props, core.Violation, key, c.InstrPos(call), fmt.Sprintf("%s calls %s and drops the unconsumed input: whatever follows the first value is neither parsed nor rejected, so text such as \"1 x\" or \"1]\" is treated as the value 1", name, callee.Name()))
			}
		}
	}
	// MarshalJSON output: whitespace skipped before validation
	if fn := c.Lookup("json.(encoder).encodeJSONMarshaler"); fn != nil {
		ok := false
		var at ssa.Instruction
		for _, ci := range callsIn(fn) {
			callee := staticCallee(ci.Common())
			if callee != nil && callee.Name() == "parseValue" {
				at = ci
				for _, a := range ci.Common().Args {
					if dependsOn(a, func(x ssa.Value) bool {
						cl, isCall := x.(*ssa.Call)
						return isCall && strings.HasSuffix(calleeName(cl.Common()), "json.skipSpaces")
					}) {
						ok = true
					}
				}
			}
		}
		key := "marshaler-output:leading-space"
		switch {
		case at == nil:
			b.addP([]string{"C01", "C05"}, core.Undecided, key, c.FuncPos(fn), "no parseValue call validating the MarshalJSON output found")
		case ok:
			b.addP([]string{"C01", "C05"}, core.Discharged, key, c.InstrPos(at), "skipSpaces precedes the validation")
		default:
			b.addP([]string{"C01", "C05"}, core.Violation, key, c.InstrPos(at), "the output of a user MarshalJSON method is validated without skipping leading whitespace: \" 1\", which encoding/json accepts and compacts to 1, is rejected")
		}
	}
	return b.out
}

// R-OVERFLOW — decimal accumulation cannot wrap unnoticed: every value*10 on an accumulator of a
// 64-bit integer type in the json number parsers is dominated by a comparison that bounds the
// accumulator by max/10 (min/10 when accumulating negatively), and the following addition or
// subtraction is itself checked.
func init() {
	Register(&Rule{
		ID:    "R-OVERFLOW",
		Doc:   "interval facts from the dominating branch edges: at every multiplication by 10 of a loop-carried 64-bit accumulator in json's parseInt/parseUint the accumulator is proven <= max(T)/10 (or >= min(T)/10), and the digit is added under a wrap test (next < value, or value < min + x)",
		Props: []string{"C02", "C14", "C17"},
		Min:   map[string]int{"C02": 3, "C14": 3, "C17": 3},
		Run:   runOverflow,
	})
}

func runOverflow(c *core.Ctx) []core.Obligation {
	b := newOb(c, "R-OVERFLOW")
	props := []string{"C02", "C14", "C17"}
	maxOf := map[types.BasicKind][2]string{
		types.Int64:  {"-9223372036854775808", "9223372036854775807"},
		types.Uint64: {"0", "18446744073709551615"},
		types.Int:    {"-9223372036854775808", "9223372036854775807"},
		types.Uint:   {"0", "18446744073709551615"},
	}
	n := 0
	for _, fnName := range []string{"json.(decoder).parseInt", "json.(decoder).parseUint"} {
		fn := c.Lookup(fnName)
		if fn == nil {
			b.addP(props, core.Undecided, "overflow:"+fnName, "-", "function not found")
			continue
		}
		k := 0
		for _, blk := range fn.Blocks {
			for _, in := range blk.Instrs {
				mul, ok := in.(*ssa.BinOp)
				if !ok || mul.Op != token.MUL {
					continue
				}
				ten, isK := constInt(mul.Y)
				if !isK || ten != 10 {
					continue
				}
				bt, ok := mul.Type().Underlying().(*types.Basic)
				if !ok {
					continue
				}
				lim, ok := maxOf[bt.Kind()]
				if !ok {
					continue
				}
				k++
				n++
				key := fmt.Sprintf("overflow:%s:mul10#%d", fnName, k)
				lo, hi := rangeFacts(mul.X, blk)
				minV, _ := new(big.Int).SetString(lim[0], 10)
				maxV, _ := new(big.Int).SetString(lim[1], 10)
				tenB := big.NewInt(10)
				hiOK := hi != nil && hi.Cmp(new(big.Int).Quo(maxV, tenB)) <= 0
				loOK := lo != nil && lo.Cmp(new(big.Int).Quo(minV, tenB)) >= 0 && minV.Sign() < 0
				// which direction does the accumulator move?
				negative := false
				for _, ref := range *mul.Referrers() {
					if bo, ok := ref.(*ssa.BinOp); ok && bo.Op == token.SUB && bo.X == ssa.Value(mul) {
						negative = true
					}
					if st, ok := ref.(*ssa.Phi); ok {
						for _, r2 := range *st.Referrers() {
							if bo, ok := r2.(*ssa.BinOp); ok && bo.Op == token.SUB && bo.X == ssa.Value(st) {
								negative = true
							}
						}
					}
				}
				// the digit is added (subtracted) under a wrap test: the sum (or, when
				// accumulating negatively, the product) is an operand of an ordering comparison
				stepChecked := false
				ordered := func(v ssa.Value) bool {
					for _, ref := range *v.Referrers() {
						if bo, ok := ref.(*ssa.BinOp); ok {
							switch bo.Op {
							case token.LSS, token.GTR, token.LEQ, token.GEQ:
								return true
							}
						}
					}
					return false
				}
				if negative {
					stepChecked = ordered(mul)
					for _, ref := range *mul.Referrers() {
						if phi, ok := ref.(*ssa.Phi); ok && ordered(phi) {
							stepChecked = true
						}
					}
				} else {
					for _, ref := range *mul.Referrers() {
						if add, ok := ref.(*ssa.BinOp); ok && add.Op == token.ADD && ordered(add) {
							stepChecked = true
						}
					}
				}
				switch {
				case (!negative && hiOK || negative && loOK) && !stepChecked:
					b.addP(props, core.Violation, key, c.InstrPos(mul), fmt.Sprintf("%s bounds its accumulator by max/10 but adds the digit without a wrap test: when the accumulator equals max/10 a last digit above max%%10 wraps silently (18446744073709551616 decodes as 0)", fnName))
				case !negative && hiOK, negative && loOK:
					b.addP(props, core.Discharged, key, c.InstrPos(mul), "the accumulator is bounded by max/10 (min/10) before it is multiplied by 10, and the digit is added under a wrap test")
				default:
					have := "no bound"
					if hi != nil {
						have = "<= " + hi.String()
					}
					if negative && lo != nil {
						have = ">= " + lo.String()
					}
					b.addP(props, core.Violation, key, c.InstrPos(mul), fmt.Sprintf("%s multiplies its accumulator by 10 with %s proven: the product can wrap past the old value, which the 'next < value' test after the addition does not notice (21000000000000000000 decodes as 2553255926290448384 without error)", fnName, have))
				}
			}
		}
	}
	if n == 0 {
		b.addP(props, core.Undecided, "overflow", "-", "no decimal accumulation found in parseInt/parseUint")
	}
	return b.out
}

// R-COERCE — text copied from the document into an unquoted string goes through the coercion of
// invalid UTF-8 (encoding/json replaces each bad byte with U+FFFD): parseStringUnquote never
// appends a segment of the input to its output directly.
// R-FLAGBITS — the kind bit-field stored in ParseFlags does not overlap any flag constant.
func init() {
	Register(&Rule{
		ID:    "R-COERCE",
		Doc:   "in json.(decoder).parseStringUnquote every append whose source is a sub-slice of the input passes through appendCoerceInvalidUTF8; a plain append(r, s[:i]...) of input bytes is reported",
		Props: []string{"C02", "C17", "C11"},
		Min:   map[string]int{"C02": 1, "C17": 1, "C11": 1},
		Run:   runCoerce,
	})
	Register(&Rule{
		ID:    "R-FLAGBITS",
		Doc:   "constant evaluation: every ParseFlags and AppendFlags constant of json is a single distinct bit, and the 8-bit kind field (0xFF << kindOffset) used by Tokenizer.Next through withKind is disjoint from all of them — otherwise storing a token kind sets or clears a parsing flag",
		Props: []string{"C17", "C14", "C02"},
		Min:   map[string]int{"C17": 2, "C14": 2, "C02": 2},
		Run:   runFlagBits,
	})
}

func runCoerce(c *core.Ctx) []core.Obligation {
	b := newOb(c, "R-COERCE")
	props := []string{"C02", "C17", "C11"}
	fn := c.Lookup("json.(decoder).parseStringUnquote")
	key := "coerce:parseStringUnquote"
	if fn == nil {
		b.addP(props, core.Undecided, key, "-", "json.(decoder).parseStringUnquote not found")
		return b.out
	}
	// values that are (sub-slices of) the input text
	isInput := func(v ssa.Value) bool {
		return dependsOn(v, func(x ssa.Value) bool {
			if ex, ok := x.(*ssa.Extract); ok {
				if call, ok := ex.Tuple.(*ssa.Call); ok {
					if f := staticCallee(call.Common()); f != nil && f.Name() == "parseString" {
						return true
					}
				}
			}
			return false
		})
	}
	nCoerced, bad := 0, ""
	for _, ci := range callsIn(fn) {
		call, ok := ci.(*ssa.Call)
		if !ok {
			continue
		}
		cc := call.Common()
		if f := staticCallee(cc); f != nil && f.Name() == "appendCoerceInvalidUTF8" {
			nCoerced++
			continue
		}
		if bi, ok := cc.Value.(*ssa.Builtin); ok && bi.Name() == "append" && len(cc.Args) == 2 {
			src := cc.Args[1]
			if _, isSlice := src.(*ssa.Slice); isSlice && isInput(src) {
				// a slice of a local array (the variadic byte) is not input
				if sl := src.(*ssa.Slice); rootLocal(sl.X) == nil {
					bad = c.InstrPos(call)
				}
			}
		}
	}
	switch {
	case bad != "":
		b.addP(props, core.Violation, key, bad, "parseStringUnquote appends a segment of the input to the unquoted text without appendCoerceInvalidUTF8: invalid UTF-8 in that segment is copied through, where encoding/json (and the segments handled by the other calls) replace each bad byte with U+FFFD")
	case nCoerced == 0:
		b.addP(props, core.Undecided, key, c.FuncPos(fn), "no call of appendCoerceInvalidUTF8 found: the unquoting loop has changed shape")
	default:
		b.addP(props, core.Discharged, key, c.FuncPos(fn), fmt.Sprintf("%d input segment(s) appended, all through appendCoerceInvalidUTF8", nCoerced))
	}
	return b.out
}

func runFlagBits(c *core.Ctx) []core.Obligation {
	b := newOb(c, "R-FLAGBITS")
	props := []string{"C17", "C14", "C02"}
	jp := c.Pkg("json")
	if jp == nil {
		b.addP(props, core.Undecided, "flagbits", "-", "json package not loaded")
		return b.out
	}
	scope := jp.Types.Scope()
	var kindOffset uint64
	haveOffset := false
	type fc struct {
		name string
		val  uint64
		typ  string
	}
	var flags []fc
	for _, name := range scope.Names() {
		k, ok := scope.Lookup(name).(*types.Const)
		if !ok {
			continue
		}
		tn := types.TypeString(k.Type(), func(p *types.Package) string { return p.Name() })
		if tn != "json.ParseFlags" && tn != "json.AppendFlags" {
			continue
		}
		v, ok := constantUint(k)
		if !ok {
			continue
		}
		if name == "kindOffset" {
			kindOffset, haveOffset = v, true
			continue
		}
		flags = append(flags, fc{name, v, tn})
	}
	if !haveOffset || len(flags) == 0 {
		b.addP(props, core.Undecided, "flagbits", "-", "kindOffset or the flag constants were not found")
		return b.out
	}
	mask := uint64(0xFF) << kindOffset
	var overlap, notBit, dup []string
	seen := map[string]map[uint64]string{}
	for _, f := range flags {
		if f.typ == "json.ParseFlags" && f.val&mask != 0 {
			overlap = append(overlap, fmt.Sprintf("%s=%#x", f.name, f.val))
		}
		if f.val == 0 {
			continue
		}
		if f.val&(f.val-1) != 0 {
			notBit = append(notBit, f.name) // composite masks are allowed, only reported for information
			continue
		}
		if seen[f.typ] == nil {
			seen[f.typ] = map[uint64]string{}
		}
		if other, ok := seen[f.typ][f.val]; ok {
			dup = append(dup, other+"/"+f.name)
		}
		seen[f.typ][f.val] = f.name
	}
	pos := "json/json.go"
	if len(overlap) > 0 {
		b.addP(props, core.Violation, "flagbits:kind-field-disjoint", pos, fmt.Sprintf("the kind field %#x (0xFF << kindOffset=%d) overlaps the ParseFlags constant(s) %v: Tokenizer.Next stores the token kind with withKind, which then sets or clears those flags for the next token (an Object kind reads back as noBackslash, and the first key after '{' is parsed as if it had no escapes)", mask, kindOffset, overlap))
	} else {
		b.addP(props, core.Discharged, "flagbits:kind-field-disjoint", pos, fmt.Sprintf("kind field %#x is disjoint from the %d flag constants", mask, len(flags)))
	}
	if len(dup) > 0 {
		b.addP(props, core.Violation, "flagbits:distinct", pos, fmt.Sprintf("two flags share a bit: %v", dup))
	} else {
		b.addP(props, core.Discharged, "flagbits:distinct", pos, fmt.Sprintf("every single-bit flag has its own bit (composite masks: %v)", notBit))
	}
	return b.out
}
