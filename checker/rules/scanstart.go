package rules

import (
	"fmt"
	"go/token"
	"go/types"
	"sort"
	"strings"

	"golang.org/x/tools/go/ssa"

	"verif/checker/core"
)

// R-SCANSTART — a scanning loop starts where the text it is responsible for starts.
//
//	marker:  "at least one digit" tests of the form i == start, where i is the cursor of a scanning
//	         loop, compare against the cursor's value on entry to that loop (not a value taken
//	         before an optional sign was skipped);
//	string:  the loop of parseString that rejects control characters starts at the byte after the
//	         opening quote, so no prefix of the string body escapes classification.
func init() {
	Register(&Rule{
		ID:    "R-SCANSTART",
		Doc:   "for every scanning loop of the json parser whose cursor is compared for equality with a saved start marker, the marker is the cursor's value on the loop's entry edge; the control-character loop of parseString starts at constant offset 1",
		Props: []string{"C05", "C02", "C11", "C17"},
		Min:   map[string]int{"C05": 1, "C02": 1, "C11": 1, "C17": 1},
		Run:   runScanStart,
	})
}

// loopPhiEntry: v is a φ at a loop header with exactly one non-back-edge input; returns that input.
func loopPhiEntry(v ssa.Value) (ssa.Value, bool) {
	phi, ok := v.(*ssa.Phi)
	if !ok {
		return nil, false
	}
	blk := phi.Block()
	var entry ssa.Value
	n, back := 0, 0
	for i, p := range blk.Preds {
		if blk.Dominates(p) {
			back++
			continue
		}
		n++
		entry = phi.Edges[i]
	}
	if back == 0 || n != 1 {
		return nil, false
	}
	return entry, true
}

func runScanStart(c *core.Ctx) []core.Obligation {
	b := newOb(c, "R-SCANSTART")
	props := []string{"C05", "C02", "C11", "C17"}
	var fns []*ssa.Function
	for _, fn := range c.RepoFunctions() {
		n := shortName(fn)
		if fn.Blocks != nil && fn.Synthetic == "" && strings.HasPrefix(n, "json.(decoder).parse") {
			fns = append(fns, fn)
		}
	}
	sort.Slice(fns, func(i, j int) bool { return shortName(fns[i]) < shortName(fns[j]) })
	for _, fn := range fns {
		name := shortName(fn)
		k := 0
		for _, blk := range fn.Blocks {
			for _, in := range blk.Instrs {
				bo, ok := in.(*ssa.BinOp)
				if !ok || (bo.Op != token.EQL && bo.Op != token.NEQ) {
					continue
				}
				if bt, ok := bo.X.Type().Underlying().(*types.Basic); !ok || bt.Kind() != types.Int {
					continue
				}
				for _, pair := range [][2]ssa.Value{{bo.X, bo.Y}, {bo.Y, bo.X}} {
					cur, m := pair[0], pair[1]
					entry, isLoop := loopPhiEntry(cur)
					if !isLoop {
						continue
					}
					if _, isK := m.(*ssa.Const); isK {
						continue
					}
					if _, isLen := lenArg(m); isLen {
						continue
					}
					if _, mLoop := loopPhiEntry(m); mLoop {
						continue
					}
					k++
					key := fmt.Sprintf("marker:%s#%d", name, k)
					if stripConv(entry) == stripConv(m) {
						b.addP(props, core.Discharged, key, c.InstrPos(bo), "the emptiness test compares the cursor with its value on entry to the scanning loop")
					} else {
						b.addP(props, core.Violation, key, c.InstrPos(bo), fmt.Sprintf("%s tests 'no character consumed' by comparing the loop cursor with a marker that is not the cursor's value on entry to the loop (it was saved before an optional prefix such as the exponent sign was skipped): once the prefix is present the test can no longer fire, and an empty digit sequence (\"1e+\") is accepted", name))
					}
					break
				}
			}
		}
	}

	// parseString's control-character loop
	if fn := c.Lookup("json.(decoder).parseString"); fn != nil {
		bp := bufParam(fn)
		n := 0
		for _, blk := range fn.Blocks {
			for _, in := range blk.Instrs {
				cmp, ok := in.(*ssa.BinOp)
				if !ok || cmp.Op != token.LSS {
					continue
				}
				if kk, ok := constInt(cmp.Y); !ok || kk != 0x20 {
					continue
				}
				ld, ok := stripConv(cmp.X).(*ssa.UnOp)
				if !ok {
					continue
				}
				ia, ok := ld.X.(*ssa.IndexAddr)
				if !ok || bp == nil || !derivesFromValue(ia.X, bp) {
					continue
				}
				// the index is the loop cursor (possibly the φ merging the escape branch)
				idx := ia.Index
				var entry ssa.Value
				seen := map[ssa.Value]bool{}
				var find func(v ssa.Value) bool
				find = func(v ssa.Value) bool {
					if v == nil || seen[v] {
						return false
					}
					seen[v] = true
					if e, ok := loopPhiEntry(v); ok {
						entry = e
						return true
					}
					switch x := v.(type) {
					case *ssa.Phi:
						for _, e := range x.Edges {
							if find(e) {
								return true
							}
						}
					case *ssa.BinOp:
						return find(x.X)
					}
					return false
				}
				n++
				key := "string:control-loop-start"
				if !find(idx) {
					b.addP(props, core.Undecided, key, c.InstrPos(cmp), "the control-character test is not inside a loop over the string body")
					continue
				}
				if kk, ok := constInt(entry); ok && kk == 1 {
					b.addP(props, core.Discharged, key, c.InstrPos(cmp), "the loop that rejects control characters starts at the byte after the opening quote")
				} else {
					b.addP(props, core.Violation, key, c.InstrPos(cmp), "the only loop of parseString that rejects raw control characters no longer starts at offset 1: the skipped prefix of the string body is classified by nothing (the fast path's ValidPrint result was negative or skipped), so strings with a control character before the resume point are accepted")
				}
			}
		}
		if n == 0 {
			b.addP(props, core.Undecided, "string:control-loop-start", c.FuncPos(fn), "no comparison of a string byte with 0x20 found in parseString")
		}
	} else {
		b.addP(props, core.Undecided, "string:control-loop-start", "-", "json.(decoder).parseString not found")
	}
	return b.out
}
