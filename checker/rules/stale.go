package rules

import (
	"fmt"
	"go/token"
	"sort"

	"golang.org/x/tools/go/ssa"

	"verif/checker/core"
)

// R-STALE — a value computed from a local variable's field is stale once that field has been
// reassigned: using it afterwards describes the old content. (proto.structTypeOf replaces f.Type
// by its element type for repeated fields; a kind computed from f.Type before that point says
// "slice" where the code that uses it means the element.) The instances present in the tree were
// read and are listed with the reason why the old value is the one wanted; a new instance — a
// derivation hoisted above the reassignment — is reported.
func init() {
	Register(&Rule{
		ID:    "R-STALE",
		Doc:   "for every local struct variable whose field is reassigned inside a function of the type compilers (proto, json, thrift): each value derived from a load of that field (a conversion of it, or the result of a call that receives it; the bare load is the save-the-old-value idiom and is not counted) that is used at a point reachable from the reassignment, while the load is not, is an instance; instances must be in the confirmed table (function, field, deriving call) with a reason",
		Props: []string{"C19", "C12", "C03", "C01", "C02", "C04"},
		Min:   map[string]int{"C19": 1, "C12": 1, "C03": 1, "C01": 1, "C02": 1, "C04": 1},
		Run:   runStale,
	})
}

// staleConfirmed: function|field|derivation -> reason the old value is meant.
var staleConfirmed = map[string]string{}

func runStale(c *core.Ctx) []core.Obligation {
	b := newOb(c, "R-STALE")
	type inst struct {
		key, pos, msg string
		props         []string
	}
	var found []inst
	checked := 0
	for _, fn := range c.RepoFunctions() {
		if fn.Blocks == nil || fn.Pkg == nil {
			continue
		}
		pkg := fn.Pkg.Pkg.Name()
		var props []string
		switch pkg {
		case "proto":
			props = []string{"C19", "C12", "C03"}
		case "json":
			props = []string{"C01", "C02"}
		case "thrift":
			props = []string{"C04"}
		default:
			continue
		}
		// stores to fields of local allocs
		type loc struct {
			a *ssa.Alloc
			f int
		}
		stores := map[loc][]*ssa.Store{}
		loads := map[loc][]*ssa.UnOp{}
		for _, blk := range fn.Blocks {
			for _, in := range blk.Instrs {
				switch x := in.(type) {
				case *ssa.Store:
					if fa, ok := x.Addr.(*ssa.FieldAddr); ok {
						if a, isA := fa.X.(*ssa.Alloc); isA {
							stores[loc{a, fa.Field}] = append(stores[loc{a, fa.Field}], x)
						}
					}
				case *ssa.UnOp:
					if x.Op != token.MUL {
						continue
					}
					if fa, ok := x.X.(*ssa.FieldAddr); ok {
						if a, isA := fa.X.(*ssa.Alloc); isA {
							loads[loc{a, fa.Field}] = append(loads[loc{a, fa.Field}], x)
						}
					}
				}
			}
		}
		for l, sts := range stores {
			lds := loads[l]
			if len(lds) == 0 {
				continue
			}
			checked++
			for _, st := range sts {
				after := instrsReachableAfter(st, l.a.Block())
				for _, ld := range lds {
					if after(ld) || !after2(ld, l.a.Block())(st) {
						continue // the load sees the new value, or cannot precede the store
					}
					// derived values of ld
					for _, dv := range derivedValues(ld) {
						dvi, _ := dv.(ssa.Instruction)
						if dvi != nil && after(dvi) {
							continue // derived after the store from the old load: counted through its own uses below
						}
						for _, ref := range *dv.Referrers() {
							if ref == ssa.Instruction(st) || !after(ref) {
								continue
							}
							if _, isPhi := ref.(*ssa.Phi); isPhi {
								continue
							}
							fieldName := fieldAddrID(ld.X.(*ssa.FieldAddr))
							key := fmt.Sprintf("stale:%s:%s:%s", shortName(fn), fieldName, deriveName(dv))
							found = append(found, inst{key, c.InstrPos(ref), fmt.Sprintf("%s: %s is computed from %s at %s, %s is reassigned at %s, and the old value is still used at %s", shortName(fn), deriveName(dv), fieldName, c.InstrPos(ld), fieldName, c.InstrPos(st), c.InstrPos(ref)), props})
						}
					}
				}
			}
		}
	}
	seen := map[string]bool{}
	sort.Slice(found, func(i, j int) bool { return found[i].key < found[j].key })
	for _, f := range found {
		if seen[f.key] {
			continue
		}
		seen[f.key] = true
		if why, ok := staleConfirmed[f.key]; ok {
			b.addP(f.props, core.Discharged, f.key, f.pos, "confirmed: "+why)
		} else {
			b.addP(f.props, core.Violation, f.key, f.pos, f.msg+": a value derived before the reassignment describes the old content")
		}
	}
	for k := range staleConfirmed {
		if !seen[k] {
			b.addP([]string{"C19"}, core.Info, k, "-", "confirmed instance no longer present")
		}
	}
	b.addP([]string{"C19", "C12", "C03", "C01", "C02", "C04"}, core.Discharged, "stale:scan", "-", fmt.Sprintf("%d reassigned fields of local struct variables examined", checked))
	return b.out
}

func deriveName(v ssa.Value) string {
	if call, ok := v.(*ssa.Call); ok {
		if f := staticCallee(call.Common()); f != nil {
			return f.Name() + "()"
		}
		if call.Common().Method != nil {
			return "." + call.Common().Method.Name() + "()"
		}
		return "call"
	}
	if _, ok := v.(*ssa.UnOp); ok {
		return "load"
	}
	return fmt.Sprintf("%T", v)
}

// derivedValues: conversions of the load and calls that receive it (one level).
func derivedValues(ld *ssa.UnOp) []ssa.Value {
	var out []ssa.Value // the bare load is not an instance: `old := x.f; x.f = …; use(old)` is how code saves a value on purpose
	for _, ref := range *ld.Referrers() {
		switch x := ref.(type) {
		case *ssa.Convert:
			out = append(out, x)
		case *ssa.ChangeType:
			out = append(out, x)
		case *ssa.Call:
			out = append(out, x)
		case *ssa.MakeInterface:
			out = append(out, x)
		}
	}
	return out
}

func after2(a ssa.Instruction, barrier *ssa.BasicBlock) func(ssa.Instruction) bool {
	return instrsReachableAfter(a, barrier)
}

// instrsReachableAfter: the instructions that can execute after st within the lifetime of a
// variable allocated in block barrier (re-entering that block makes a new variable).
func instrsReachableAfter(st ssa.Instruction, barrier *ssa.BasicBlock) func(ssa.Instruction) bool {
	reach := map[*ssa.BasicBlock]bool{}
	var work []*ssa.BasicBlock
	work = append(work, st.Block().Succs...)
	for len(work) > 0 {
		blk := work[len(work)-1]
		work = work[:len(work)-1]
		if reach[blk] || blk == barrier {
			continue
		}
		reach[blk] = true
		work = append(work, blk.Succs...)
	}
	return func(in ssa.Instruction) bool {
		if in.Block() == st.Block() && instrIndex(in) > instrIndex(st) {
			return true
		}
		return reach[in.Block()]
	}
}
