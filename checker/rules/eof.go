package rules

import (
	"fmt"
	"sort"
	"strings"

	"golang.org/x/tools/go/ssa"

	"verif/checker/core"
)

// R-EOF — once a value has been started, running out of input is unexpected: in every thrift
// Reader method, the error of a read that is dominated by an earlier successful read reaches the
// method's return only through dontExpectEOF.
func init() {
	Register(&Rule{
		ID:    "R-EOF",
		Doc:   "for every method of thrift's binaryReader and compactReader: each input read (r.read, Read* on the same reader, io.ReadFull, binary.ReadUvarint/ReadVarint) that is dominated by an earlier read has its error returned only through dontExpectEOF (φ-expanded flow from the call's error result to the return operands); the first read of a method may return io.EOF as it is",
		Props: []string{"C08"},
		Min:   map[string]int{"C08": 10},
		Run:   runEOF,
	})
}

func isThriftRead(c *core.Ctx, ci ssa.CallInstruction, recv ssa.Value) bool {
	cc := ci.Common()
	n := calleeName(cc)
	switch {
	case n == "io.ReadFull", n == "encoding/binary.ReadUvarint", n == "encoding/binary.ReadVarint", strings.HasSuffix(n, ".ReadByte"):
		return true
	}
	f := staticCallee(cc)
	if f == nil || f.Signature.Recv() == nil || len(cc.Args) == 0 {
		return false
	}
	name := f.Name()
	if !(strings.HasPrefix(name, "Read") || strings.HasPrefix(name, "read")) || name == "Reader" {
		return false
	}
	rt := typeShort(f.Signature.Recv().Type())
	return strings.HasSuffix(rt, "binaryReader") || strings.HasSuffix(rt, "compactReader")
}

func runEOF(c *core.Ctx) []core.Obligation {
	b := newOb(c, "R-EOF")
	props := []string{"C08"}
	var fns []*ssa.Function
	for _, fn := range c.RepoFunctions() {
		if fn.Blocks == nil || fn.Synthetic != "" || fn.Signature.Recv() == nil {
			continue
		}
		rt := typeShort(fn.Signature.Recv().Type())
		if strings.HasSuffix(rt, "thrift.binaryReader") || strings.HasSuffix(rt, "thrift.compactReader") {
			fns = append(fns, fn)
		}
	}
	sort.Slice(fns, func(i, j int) bool { return shortName(fns[i]) < shortName(fns[j]) })
	for _, fn := range fns {
		name := shortName(fn)
		var reads []ssa.CallInstruction
		for _, ci := range callsIn(fn) {
			if isThriftRead(c, ci, nil) {
				reads = append(reads, ci)
			}
		}
		kn := map[string]int{}
		for _, rd := range reads {
			later := false
			for _, prev := range reads {
				if prev != rd && instrDominates(prev, rd) {
					later = true
				}
			}
			if !later {
				continue
			}
			call, ok := rd.(*ssa.Call)
			if !ok {
				continue
			}
			// the error result of this read
			var errv ssa.Value
			res := call.Common().Signature().Results()
			if res.Len() == 1 && isErrorType(res.At(0).Type()) {
				errv = call
			} else {
				for _, ref := range *call.Referrers() {
					if ex, ok := ref.(*ssa.Extract); ok && ex.Index == res.Len()-1 && isErrorType(ex.Type()) {
						errv = ex
					}
				}
			}
			if errv == nil {
				continue
			}
			label := calleeLabel(call.Common())
			kn[label]++
			key := fmt.Sprintf("eof:%s:%s", name, label)
			if kn[label] > 1 {
				key = fmt.Sprintf("%s#%d", key, kn[label])
			}
			// does errv reach a return operand without passing through dontExpectEOF?
			raw := ""
			for _, r := range returnsOf(fn) {
				for _, op := range r.Results {
					if !isErrorType(op.Type()) {
						continue
					}
					for _, o := range origins(op) {
						if o == errv {
							raw = c.InstrPos(r)
						}
					}
				}
			}
			if raw != "" {
				b.addP(props, core.Violation, key, c.InstrPos(call), fmt.Sprintf("%s returns the error of %s, a read that follows an earlier read of the same value, without dontExpectEOF (return at %s): input that ends between the two reads is reported as a clean io.EOF instead of io.ErrUnexpectedEOF", name, label, raw))
			} else {
				b.addP(props, core.Discharged, key, c.InstrPos(call), "error normalised with dontExpectEOF (or not returned)")
			}
		}
	}
	return b.out
}
