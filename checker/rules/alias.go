package rules

import (
	"fmt"
	"go/token"
	"go/types"
	"sort"
	"strings"

	"golang.org/x/tools/go/ssa"

	"verif/checker/core"
)

// R-ALIAS — a value that aliases the caller's input is stored into the destination only under the
// matching DontCopy* flag (or when the unquoting step reports a fresh buffer).
func init() {
	Register(&Rule{
		ID:    "R-ALIAS",
		Doc:   "every store into the decode destination of a string/Number/RawMessage/[]byte that may alias the input buffer (through unsafe []byte→string views, slicing, φ, callees' returned aliases) is reachable only through an edge on which the matching DontCopy* flag is set or parseStringUnquote reported a fresh buffer; key fragments are not written after their unsafe string view is taken; parseStringUnquote reports a fresh buffer only when it returns its output buffer",
		Props: []string{"C10", "C14", "C11"},
		Min:   map[string]int{"C10": 4, "C14": 4, "C11": 1},
		Run:   runAlias,
	})
}

type edgeKey struct{ from, to *ssa.BasicBlock }

func runAlias(c *core.Ctx) []core.Obligation {
	b := newOb(c, "R-ALIAS", "C10", "C14", "C11")
	jp := c.Pkg("json")
	if jp == nil {
		b.und("package", "-", "json not loaded")
		return b.out
	}
	flagVal := func(name string) uint64 {
		k, _ := jp.Types.Scope().Lookup(name).(*types.Const)
		if k == nil {
			return 0
		}
		v, _ := constantUint(k)
		return v
	}
	flagFor := func(t types.Type) (string, uint64) {
		switch {
		case namedKey(t) == "json.RawMessage" || strings.HasSuffix(t.String(), "encoding/json.RawMessage"):
			return "DontCopyRawMessage", flagVal("DontCopyRawMessage")
		case strings.HasSuffix(t.String(), "encoding/json.Number"):
			return "DontCopyNumber", flagVal("DontCopyNumber")
		case isStringType(t):
			return "DontCopyString", flagVal("DontCopyString")
		case isByteSliceType(t):
			return "DontCopyRawMessage", flagVal("DontCopyRawMessage")
		}
		return "", 0
	}

	// parseStringUnquote's third result tells callers "the text is in a buffer you own": it may be
	// true only when the returned text is not (a part of) the input
	if fn := c.Lookup("json.(decoder).parseStringUnquote"); fn != nil {
		isInput := func(v ssa.Value) bool {
			return dependsOn(v, func(x ssa.Value) bool {
				if ex, ok := x.(*ssa.Extract); ok {
					if call, ok := ex.Tuple.(*ssa.Call); ok {
						if f := staticCallee(call.Common()); f != nil && f.Name() == "parseString" {
							return true
						}
					}
				}
				if p, ok := x.(*ssa.Parameter); ok && len(fn.Params) > 1 && p == fn.Params[1] {
					return true // b, the input
				}
				return false
			})
		}
		n, bad := 0, ""
		for _, r := range returnsOf(fn) {
			if len(r.Results) != 4 {
				continue
			}
			k, isK := r.Results[2].(*ssa.Const)
			if !isK || k.Value == nil || k.Value.String() != "true" {
				continue
			}
			n++
			// the text handed back: must come from the output buffer (param r / make), never
			// directly from the input
			if sl := r.Results[0]; isInput(sl) && !dependsOn(sl, func(x ssa.Value) bool {
				_, isMake := x.(*ssa.MakeSlice)
				if p, ok := x.(*ssa.Parameter); ok && len(fn.Params) > 2 && p == fn.Params[2] {
					return true
				}
				return isMake
			}) {
				bad = c.InstrPos(r)
			}
		}
		key := "unquote:fresh-flag"
		switch {
		case n == 0:
			b.addP([]string{"C10", "C14", "C11"}, core.Undecided, key, c.FuncPos(fn), "parseStringUnquote never reports a fresh buffer")
		case bad != "":
			b.addP([]string{"C10", "C14", "C11"}, core.Violation, key, bad, "parseStringUnquote returns a part of the input while reporting that the text is in a fresh buffer: callers then build strings on the input without copying, and a Decoder overwrites them at its next refill")
		default:
			b.addP([]string{"C10", "C14", "C11"}, core.Discharged, key, c.FuncPos(fn), fmt.Sprintf("%d return(s) report a fresh buffer, each hands back the output buffer", n))
		}
	}

	var fns []*ssa.Function
	for _, fn := range c.RepoFunctions() {
		if fn.Blocks != nil && strings.HasPrefix(shortName(fn), "json.") {
			fns = append(fns, fn)
		}
	}
	a := &inputRO{c: c}
	a.compute(fns)
	unquote := c.Lookup("json.(decoder).parseStringUnquote")

	sort.Slice(fns, func(i, j int) bool { return shortName(fns[i]) < shortName(fns[j]) })
	sites := 0
	for _, fn := range fns {
		recv := fn.Signature.Recv()
		if recv == nil || !namedTypeIs(recv.Type(), "json", "decoder") {
			continue
		}
		in := bufParam(fn)
		dst := dataParam(fn)
		if in == nil || dst == nil {
			continue
		}
		d := a.derived(fn, in)

		// string views of aliased byte slices: load of (*string|*Number)(unsafe.Pointer(&local)) where local holds a d value
		aliasStr := map[ssa.Value]bool{}
		for _, blk := range fn.Blocks {
			for _, ins := range blk.Instrs {
				ld, ok := ins.(*ssa.UnOp)
				if !ok || ld.Op != token.MUL || !(isStringType(ld.Type())) {
					continue
				}
				cv, ok := ld.X.(*ssa.Convert)
				if !ok {
					continue
				}
				cv2, ok := cv.X.(*ssa.Convert)
				if !ok {
					continue
				}
				al, ok := cv2.X.(*ssa.Alloc)
				if !ok {
					continue
				}
				for _, st := range cellStores(al) {
					if d[st] {
						aliasStr[ld] = true
					}
				}
			}
		}

		for _, blk := range fn.Blocks {
			for _, ins := range blk.Instrs {
				st, ok := ins.(*ssa.Store)
				if !ok || !derivesFromValue(st.Addr, dst) {
					continue
				}
				val := st.Val
				if cvt, ok := val.(*ssa.ChangeType); ok {
					val = cvt.X
				}
				if cvt, ok := val.(*ssa.Convert); ok && isSliceType(cvt.Type()) && isSliceType(cvt.X.Type()) {
					val = cvt.X
				}
				isAlias := func(v ssa.Value) bool { return d[v] || aliasStr[v] }
				// does any flow of an aliasing value reach this store?
				mayAlias := false
				var probe func(v ssa.Value, seen map[ssa.Value]bool)
				probe = func(v ssa.Value, seen map[ssa.Value]bool) {
					if seen[v] {
						return
					}
					seen[v] = true
					if phi, ok := v.(*ssa.Phi); ok {
						for _, e := range phi.Edges {
							probe(e, seen)
						}
						return
					}
					if isAlias(v) {
						mayAlias = true
					}
				}
				probe(val, map[ssa.Value]bool{})
				if !mayAlias {
					continue
				}
				sites++
				fname, fbit := flagFor(st.Val.Type())
				key := fmt.Sprintf("alias-store:%s:%s", shortName(fn), typeShort(st.Val.Type()))
				if fbit == 0 {
					b.und(key, c.InstrPos(st), "store of an input-aliasing value of a type with no DontCopy flag")
					continue
				}
				// permitting edges
				perm := map[edgeKey]bool{}
				for _, x := range fn.Blocks {
					if len(x.Instrs) == 0 {
						continue
					}
					ifi, ok := x.Instrs[len(x.Instrs)-1].(*ssa.If)
					if !ok {
						continue
					}
					// flag test
					if set, ok := flagTest(ifi.Cond, fbit); ok {
						if set {
							perm[edgeKey{x, x.Succs[0]}] = true
						} else {
							perm[edgeKey{x, x.Succs[1]}] = true
						}
					}
					// fresh indicator of parseStringUnquote
					if ex, ok := ifi.Cond.(*ssa.Extract); ok && ex.Index == 2 {
						if call, ok := ex.Tuple.(*ssa.Call); ok && staticCallee(call.Common()) == unquote && unquote != nil {
							perm[edgeKey{x, x.Succs[0]}] = true
						}
					}
				}
				reach := map[*ssa.BasicBlock]bool{}
				var walk func(x *ssa.BasicBlock)
				walk = func(x *ssa.BasicBlock) {
					if reach[x] {
						return
					}
					reach[x] = true
					for _, s := range x.Succs {
						if !perm[edgeKey{x, s}] {
							walk(s)
						}
					}
				}
				walk(fn.Blocks[0])
				// unpermitted flow of an aliasing value into the store
				var bad func(v ssa.Value, at *ssa.BasicBlock, seen map[ssa.Value]bool) bool
				bad = func(v ssa.Value, at *ssa.BasicBlock, seen map[ssa.Value]bool) bool {
					if seen[v] {
						return false
					}
					seen[v] = true
					if phi, ok := v.(*ssa.Phi); ok {
						for i, e := range phi.Edges {
							pred := phi.Block().Preds[i]
							if perm[edgeKey{pred, phi.Block()}] || !reach[pred] {
								continue
							}
							if bad(e, pred, seen) {
								return true
							}
						}
						return false
					}
					return isAlias(v) && reach[at]
				}
				if bad(val, blk, map[ssa.Value]bool{}) {
					b.bad(key, c.InstrPos(st), fmt.Sprintf("%s stores into the destination a %s that shares memory with the input buffer on a path where %s is not set (and the unquoted buffer is not fresh): the decoded value changes when the caller reuses its buffer", shortName(fn), typeShort(st.Val.Type()), fname))
				} else {
					b.ok(key, c.InstrPos(st), fmt.Sprintf("aliasing store reachable only under %s (or a fresh unquoted buffer); other paths copy", fname))
				}
			}
		}
	}
	if sites == 0 {
		b.und("alias-stores", "-", "no aliasing store found in any decoder method: the rule no longer sees the zero-copy branches")
	}

	// key fragments: no write after the unsafe string view
	if fn := c.Lookup("json.encodeKeyFragment"); fn != nil {
		var cast ssa.Instruction
		for _, blk := range fn.Blocks {
			for _, ins := range blk.Instrs {
				if ld, ok := ins.(*ssa.UnOp); ok && ld.Op == token.MUL && isStringType(ld.Type()) {
					if _, ok := ld.X.(*ssa.Convert); ok {
						cast = ld
					}
				}
			}
		}
		if cast == nil {
			// a fragment built as an ordinary string (string(b), concatenation) shares nothing
			b.ok("keyfragment-immutable", c.FuncPos(fn), "encodeKeyFragment takes no unsafe string view of a buffer: the fragment is an ordinary immutable string")
		} else {
			after := false
			bad := ""
			for _, ins := range cast.Block().Instrs {
				if ins == cast {
					after = true
					continue
				}
				if !after {
					continue
				}
				switch x := ins.(type) {
				case *ssa.Store:
					bad = "store at " + c.InstrPos(x)
				case *ssa.Call:
					bad = "call at " + c.InstrPos(x)
				}
			}
			if len(cast.Block().Succs) > 0 {
				bad = "control continues after the view is taken"
			}
			if bad != "" {
				b.bad("keyfragment-immutable", c.InstrPos(cast), "the key fragment buffer is written after its unsafe string view was taken: "+bad)
			} else {
				b.ok("keyfragment-immutable", c.InstrPos(cast), "the string view is the last use of the buffer")
			}
		}
	} else {
		b.und("keyfragment-immutable", "-", "json.encodeKeyFragment not found")
	}
	return b.out
}

// flagTest recognises `flags & K != 0`, `flags & K == 0` and `flags.has(K)` for a K containing bit;
// returns whether the true edge means "bit set".
func flagTest(cond ssa.Value, bit uint64) (trueMeansSet bool, ok bool) {
	switch x := cond.(type) {
	case *ssa.BinOp:
		if x.Op != token.NEQ && x.Op != token.EQL {
			return false, false
		}
		and, isAnd := x.X.(*ssa.BinOp)
		z, isZ := constUint(x.Y)
		if !isAnd || and.Op != token.AND || !isZ || z != 0 {
			return false, false
		}
		k, isK := constUint(and.Y)
		if !isK {
			k, isK = constUint(and.X)
		}
		if !isK || k != bit {
			return false, false
		}
		return x.Op == token.NEQ, true
	case *ssa.Call:
		n := calleeName(x.Common())
		if strings.HasSuffix(n, ".has") || strings.HasSuffix(n, ".anyFlagsSet") {
			for _, a := range x.Common().Args {
				if k, ok := constUint(a); ok && k == bit {
					return true, true
				}
			}
		}
	}
	return false, false
}
