package rules

import (
	"fmt"
	"go/constant"
	"go/token"
	"strings"

	"golang.org/x/tools/go/ssa"

	"verif/checker/core"
)

// R-MARSHALSEL — which marshaling interface wins. encoding/json's newTypeEncoder asks, in this
// order: addressable and *T is a Marshaler; T is a Marshaler; addressable and *T is a
// TextMarshaler; T is a TextMarshaler. On decode, Unmarshaler comes before TextUnmarshaler.
// constructCodec decides the same question with a sequence of Implements tests that assign
// c.encode / c.decode; the tail of the function (from p := reflect.PointerTo(t)) is evaluated for
// every consistent outcome of those tests × canAddr, and the constructor whose result is finally
// stored must be the one the standard library's order gives.
func init() {
	Register(&Rule{
		ID:    "R-MARSHALSEL",
		Doc:   "exhaustive evaluation of the marshaler-selection tail of json.constructCodec over canAddr × the outcomes of {T,*T}.Implements({Marshaler, TextMarshaler, Unmarshaler, TextUnmarshaler}) that method sets allow (T implements ⇒ *T implements): the last constructor stored into c.encode must be the JSON one when (canAddr ∧ *T is a Marshaler) ∨ T is a Marshaler, else the text one when (canAddr ∧ *T is a TextMarshaler) ∨ T is a TextMarshaler, else none, called through the pointer when only *T implements; c.decode likewise with Unmarshaler before TextUnmarshaler; a condition that is not canAddr or an Implements test makes the verdict undecided",
		Props: []string{"C01", "C02"},
		Min:   map[string]int{"C01": 1, "C02": 1},
		Run:   runMarshalSel,
	})
}

func runMarshalSel(c *core.Ctx) []core.Obligation {
	b := newOb(c, "R-MARSHALSEL")
	marshalSelSite(c, b, "json.constructCodec", "")
	// byte-kind slice elements choose their marshaler in constructSliceCodec; slice elements are
	// addressable, so the order is the canAddr one
	marshalSelSite(c, b, "json.constructSliceCodec", ":slice-of-bytes")
	return b.out
}

func marshalSelSite(c *core.Ctx, b *ob, fnName, suffix string) {
	fn := c.Lookup(fnName)
	if fn == nil {
		b.addP([]string{"C01", "C02"}, core.Undecided, "marshalsel"+suffix, "-", fnName+" not found")
		return
	}
	// start: the p := reflect.PointerTo(t) call; t is its argument
	var start *ssa.Call
	for _, blk := range fn.Blocks {
		for _, in := range blk.Instrs {
			if call, ok := in.(*ssa.Call); ok && calleeName(call.Common()) == "reflect.PointerTo" && len(call.Call.Args) == 1 && start == nil {
				start = call
			}
		}
	}
	if start == nil {
		b.addP([]string{"C01", "C02"}, core.Undecided, "marshalsel"+suffix, c.FuncPos(fn), "p := reflect.PointerTo(t) not found in "+fnName)
		return
	}
	tVal := start.Call.Args[0]
	var canAddr *ssa.Parameter
	for _, p := range fn.Params {
		if p.Type().String() == "bool" && canAddr == nil {
			canAddr = p
		}
	}
	ifaces := []string{"jsonMarshalerType", "textMarshalerType", "jsonUnmarshalerType", "textUnmarshalerType"}
	type input struct {
		canAddr bool
		t, p    [4]bool
	}
	type sel struct {
		ctor    string
		pointer int // -1 unknown, 0, 1
	}
	eval := func(in input) (enc, dec sel, why string) {
		env := map[ssa.Value]bool{}
		known := map[ssa.Value]bool{}
		if canAddr != nil {
			env[canAddr], known[canAddr] = in.canAddr, true
		}
		blk := start.Block()
		idx := 0
		for i, x := range blk.Instrs {
			if x == ssa.Instruction(start) {
				idx = i + 1
			}
		}
		var prev *ssa.BasicBlock
		get := func(v ssa.Value) (bool, bool) {
			if k, ok := v.(*ssa.Const); ok && k.Value != nil && k.Value.Kind() == constant.Bool {
				return constant.BoolVal(k.Value), true
			}
			return env[v], known[v]
		}
		for steps := 0; steps < 300; steps++ {
			next := (*ssa.BasicBlock)(nil)
			for _, x := range blk.Instrs[idx:] {
				switch x := x.(type) {
				case *ssa.Phi:
					for i, p := range blk.Preds {
						if p == prev {
							if v, ok := get(x.Edges[i]); ok {
								env[x], known[x] = v, true
							}
						}
					}
				case *ssa.Call:
					if x.Common().IsInvoke() && x.Common().Method.Name() == "Implements" && len(x.Call.Args) == 1 {
						which := -1
						if ld, ok := x.Call.Args[0].(*ssa.UnOp); ok {
							if g, isG := ld.X.(*ssa.Global); isG {
								for i, n := range ifaces {
									if g.Name() == n {
										which = i
									}
								}
							}
						}
						if which < 0 {
							continue
						}
						switch x.Common().Value {
						case tVal:
							env[x], known[x] = in.t[which], true
						case ssa.Value(start):
							env[x], known[x] = in.p[which], true
						}
					}
				case *ssa.UnOp:
					if x.Op == token.NOT {
						if v, ok := get(x.X); ok {
							env[x], known[x] = !v, true
						}
					}
				case *ssa.Store:
					fa, ok := x.Addr.(*ssa.FieldAddr)
					if !ok {
						continue
					}
					name := fieldAddrID(fa)
					if name != "json.codec.encode" && name != "json.codec.decode" {
						continue
					}
					s := sel{"other", -1}
					if call, isCall := x.Val.(*ssa.Call); isCall {
						if f := staticCallee(call.Common()); f != nil {
							s.ctor = f.Name()
							for _, a := range call.Call.Args {
								if k, isK := a.(*ssa.Const); isK && k.Value != nil && k.Value.Kind() == constant.Bool {
									s.pointer = 0
									if constant.BoolVal(k.Value) {
										s.pointer = 1
									}
								}
							}
						}
					}
					if name == "json.codec.encode" {
						enc = s
					} else {
						dec = s
					}
				case *ssa.If:
					v, ok := get(x.Cond)
					if !ok && suffix != "" {
						// the selection is over once the function starts wrapping what it selected
						return enc, dec, ""
					}
					if !ok {
						return enc, dec, "a condition after p := reflect.PointerTo(t) is neither canAddr nor an Implements test of t or p (" + c.InstrPos(x) + ")"
					}
					prev = blk
					if v {
						next = blk.Succs[0]
					} else {
						next = blk.Succs[1]
					}
				case *ssa.Jump:
					prev = blk
					next = blk.Succs[0]
				case *ssa.Return:
					return enc, dec, ""
				}
			}
			if next == nil {
				return enc, dec, "evaluation fell off a block"
			}
			blk, idx = next, 0
		}
		return enc, dec, "evaluation did not terminate"
	}
	type prob struct{ msg string }
	var encBad, decBad, und string
	n := 0
	for mask := 0; mask < 1<<9 && und == ""; mask++ {
		var in input
		in.canAddr = mask&1 != 0
		ok := true
		if canAddr == nil && !in.canAddr {
			continue // no canAddr parameter: the site is about addressable values
		}
		for i := 0; i < 4; i++ {
			in.t[i] = mask&(1<<(1+uint(i))) != 0
			in.p[i] = mask&(1<<(5+uint(i))) != 0
			if in.t[i] && !in.p[i] {
				ok = false // the method set of *T includes that of T
			}
		}
		if !ok {
			continue
		}
		n++
		enc, dec, why := eval(in)
		if why != "" {
			und = why
			break
		}
		desc := fmt.Sprintf("canAddr=%v, T implements {%s}, *T implements {%s}", in.canAddr, implNames(in.t), implNames(in.p))
		// encode
		wantEnc, wantPtr := "", -1
		switch {
		case in.t[0]:
			wantEnc = "JSONMarshaler"
		case in.canAddr && in.p[0]:
			wantEnc, wantPtr = "JSONMarshaler", 1
		case in.t[1]:
			wantEnc = "TextMarshaler"
		case in.canAddr && in.p[1]:
			wantEnc, wantPtr = "TextMarshaler", 1
		}
		if encBad == "" {
			switch {
			case wantEnc == "" && enc.ctor != "":
				encBad = fmt.Sprintf("with %s the encoder is replaced by %s although no marshaling interface applies", desc, enc.ctor)
			case wantEnc != "" && !strings.Contains(enc.ctor, wantEnc):
				got := enc.ctor
				if got == "" {
					got = "the built-in encoder"
				}
				encBad = fmt.Sprintf("with %s encoding/json uses the %s; constructCodec ends up with %s", desc, wantEnc, got)
			case wantPtr == 1 && enc.pointer != 1:
				encBad = fmt.Sprintf("with %s only *T has the method, but the encoder is built for a value receiver", desc)
			}
		}
		wantDec := ""
		switch {
		case in.p[2]:
			wantDec = "JSONUnmarshaler"
		case in.p[3]:
			wantDec = "TextUnmarshaler"
		}
		if decBad == "" {
			switch {
			case wantDec == "" && dec.ctor != "":
				decBad = fmt.Sprintf("with %s the decoder is replaced by %s although no unmarshaling interface applies", desc, dec.ctor)
			case wantDec != "" && !strings.Contains(dec.ctor, wantDec):
				got := dec.ctor
				if got == "" {
					got = "the built-in decoder"
				}
				decBad = fmt.Sprintf("with %s encoding/json uses the %s; constructCodec ends up with %s", desc, wantDec, got)
			}
		}
	}
	for _, side := range []struct {
		key, bad string
		props    []string
	}{{"marshalsel:encode" + suffix, encBad, []string{"C01"}}, {"marshalsel:decode" + suffix, decBad, []string{"C02"}}} {
		switch {
		case und != "":
			b.addP(side.props, core.Undecided, side.key, c.FuncPos(fn), und)
		case side.bad != "":
			b.addP(side.props, core.Violation, side.key, c.InstrPos(start), side.bad)
		default:
			b.addP(side.props, core.Discharged, side.key, c.InstrPos(start), fmt.Sprintf("%d consistent outcomes of the Implements tests × canAddr select what encoding/json's order selects", n))
		}
	}
}

func implNames(v [4]bool) string {
	names := []string{"Marshaler", "TextMarshaler", "Unmarshaler", "TextUnmarshaler"}
	var out []string
	for i, x := range v {
		if x {
			out = append(out, names[i])
		}
	}
	return strings.Join(out, ",")
}
