package rules

import (
	"fmt"
	"sort"
	"strings"

	"golang.org/x/tools/go/ssa"

	"verif/checker/core"
)

// R-PANIC — steady-state code (what runs per Marshal/Unmarshal call, as opposed to the type
// compilers) contains no explicit panic and no unchecked type assertion other than the ones whose
// impossibility was confirmed by reading and recorded, with the reason, in the table below.
func init() {
	Register(&Rule{
		ID:    "R-PANIC",
		Doc:   "every *ssa.Panic and every single-result *ssa.TypeAssert in the steady-state functions of json, proto and thrift is either listed in the confirmed table (site = function + asserted type, reason = the construction-time test that makes it unreachable or the documented contract) or reported",
		Props: []string{"C06", "C07", "C08", "C03", "C04"},
		Min:   map[string]int{"C06": 10},
		Run:   runPanic,
	})
}

// panicConfirmed: sites confirmed by reading, with the reason. Sites in the other classes are
// verified structurally on every run (see classify).
var panicConfirmed = map[string]string{
	"panic:json.constructMapCodec$$:assert:encoding.TextMarshaler":   "the sort closure is only installed on the branch where the key type implements encoding.TextMarshaler (verified: closure created under that guard)",
	"panic:json.constructMapCodec$$:assert:encoding.TextMarshaler#2": "same closure",
}

// marshalerFamilies: steady-state method -> (constructor, interface type global) whose guard at
// every constructor call site makes the method's unchecked assertion safe.
var marshalerFamilies = map[string][2]string{
	"json.(encoder).encodeJSONMarshaler":   {"constructJSONMarshalerEncodeFunc", "jsonMarshalerType"},
	"json.(encoder).encodeTextMarshaler":   {"constructTextMarshalerEncodeFunc", "textMarshalerType"},
	"json.(decoder).decodeJSONUnmarshaler": {"constructJSONUnmarshalerDecodeFunc", "jsonUnmarshalerType"},
	"json.(decoder).decodeTextUnmarshaler": {"constructTextUnmarshalerDecodeFunc", "textUnmarshalerType"},
}

// implementsGuard: blk is dominated by the true edge of X.Implements(G) with G the named global;
// returns the receivers X of such guards.
func implementsGuards(blk *ssa.BasicBlock, global string) []ssa.Value {
	var out []ssa.Value
	for _, cond := range trueAtoms(blk, 0) {
		call, ok := cond.(*ssa.Call)
		if !ok || !call.Common().IsInvoke() || call.Common().Method.Name() != "Implements" || len(call.Common().Args) != 1 {
			continue
		}
		if g := globalOfLoad(call.Common().Args[0]); g != nil && g.Name() == global {
			out = append(out, call.Common().Value)
		}
	}
	return out
}

// trueAtoms: conditions known to hold on entry to blk — the conditions of the dominating true
// edges; a condition that is the φ of a short-circuit "a && b" evaluated as a value
// (φ[false, b]) contributes b and whatever holds where b was evaluated (which includes a).
func trueAtoms(blk *ssa.BasicBlock, depth int) []ssa.Value {
	var out []ssa.Value
	if depth > 4 {
		return out
	}
	for _, e := range dominatingEdges(blk) {
		if e.succ != 0 {
			continue
		}
		out = append(out, e.ifi.Cond)
		phi, ok := e.ifi.Cond.(*ssa.Phi)
		if !ok {
			continue
		}
		var live []int
		for i, ev := range phi.Edges {
			if k, isK := ev.(*ssa.Const); isK && k.Value != nil && k.Value.String() == "false" {
				continue
			}
			live = append(live, i)
		}
		if len(live) == 1 {
			i := live[0]
			out = append(out, phi.Edges[i])
			out = append(out, trueAtoms(phi.Block().Preds[i], depth+1)...)
		}
	}
	return out
}

func isPointerToOf(x, t ssa.Value) bool {
	for _, o := range origins(x) {
		call, ok := o.(*ssa.Call)
		if !ok {
			return false
		}
		n := calleeName(call.Common())
		if (n != "reflect.PointerTo" && n != "reflect.PtrTo") || len(call.Common().Args) != 1 {
			return false
		}
		if !sameTypeValue(call.Common().Args[0], t) {
			return false
		}
	}
	return true
}

func sameTypeValue(a, b ssa.Value) bool {
	if a == b {
		return true
	}
	oa, ob := origins(a), origins(b)
	return len(oa) == 1 && len(ob) == 1 && oa[0] == ob[0]
}

// verifyMarshalerFamily: every call of the constructor passes (T, mode) under the matching
// Implements guard.
func verifyMarshalerFamily(c *core.Ctx, ctor, global string) (sites int, problems []string) {
	for _, fn := range c.RepoFunctions() {
		if !strings.HasPrefix(shortName(fn), "json.") {
			continue
		}
		for _, ci := range callsIn(fn) {
			callee := staticCallee(ci.Common())
			if callee == nil || callee.Name() != ctor || len(ci.Common().Args) != 2 {
				continue
			}
			sites++
			t := ci.Common().Args[0]
			mode, isK := ci.Common().Args[1].(*ssa.Const)
			if !isK || mode.Value == nil {
				problems = append(problems, fmt.Sprintf("%s: pointer mode is not a constant", c.InstrPos(ci)))
				continue
			}
			ptrMode := mode.Value.String() == "true"
			if g := globalOfLoad(t); g != nil && !ptrMode && strings.HasSuffix(ctor, "DecodeFunc") {
				// package-level decoder for a fixed pointer type (bigIntType = *big.Int)
				continue
			}
			ok := false
			for _, x := range implementsGuards(ci.Block(), global) {
				if ptrMode && isPointerToOf(x, t) {
					ok = true
				}
				if !ptrMode && sameTypeValue(x, t) && strings.HasSuffix(ctor, "EncodeFunc") {
					ok = true
				}
			}
			if !ok {
				want := "T.Implements"
				if ptrMode {
					want = "reflect.PointerTo(T).Implements"
				}
				if !ptrMode && strings.HasSuffix(ctor, "DecodeFunc") {
					want = "pointer mode (the non-pointer decode mode treats T as a pointer type and panics in reflect for any other kind)"
				}
				problems = append(problems, fmt.Sprintf("%s: %s(T, %v) is not under a %s(%s) guard", c.InstrPos(ci), ctor, ptrMode, want, global))
			}
		}
	}
	return
}

func runPanic(c *core.Ctx) []core.Obligation {
	b := newOb(c, "R-PANIC")
	ss := steadyState(c)
	var fns []*ssa.Function
	for fn := range ss {
		if fn.Blocks != nil {
			fns = append(fns, fn)
		}
	}
	sort.Slice(fns, func(i, j int) bool { return shortName(fns[i]) < shortName(fns[j]) })
	for _, fn := range fns {
		name := shortName(fn)
		var props []string
		switch {
		case strings.HasPrefix(name, "json."):
			props = []string{"C06"}
		case strings.HasPrefix(name, "proto."):
			props = []string{"C07", "C03"}
		case strings.HasPrefix(name, "thrift."):
			props = []string{"C08", "C04"}
		default:
			continue
		}
		kn := map[string]int{}
		for _, blk := range fn.Blocks {
			for _, in := range blk.Instrs {
				var site, what string
				switch x := in.(type) {
				case *ssa.Panic:
					site, what = "panic", "an explicit panic"
				case *ssa.TypeAssert:
					if x.CommaOk {
						continue
					}
					tn := typeShort(x.AssertedType)
					site, what = "assert:"+tn, "an unchecked type assertion to "+tn
				default:
					continue
				}
				kn[site]++
				key := fmt.Sprintf("panic:%s:%s", name, site)
				if kn[site] > 1 {
					key = fmt.Sprintf("%s#%d", key, kn[site])
				}
				if why, bad, decided := classifyPanicSite(c, fn, in); decided {
					if bad == "" {
						b.addP(props, core.Discharged, key, c.InstrPos(in), why)
					} else {
						b.addP(props, core.Violation, key, c.InstrPos(in), fmt.Sprintf("%s contains %s which can fail: %s", name, what, bad))
					}
				} else if why, ok := panicConfirmed[closureIndex.ReplaceAllString(key, "$")]; ok {
					b.addP(props, core.Discharged, key, c.InstrPos(in), "unreachable or documented: "+why)
				} else {
					b.addP(props, core.Violation, key, c.InstrPos(in), fmt.Sprintf("%s contains %s that is not in the confirmed table: steady-state code must turn every failure into a returned error", name, what))
				}
			}
		}
	}
	return b.out
}

// classifyPanicSite verifies the classes of unchecked assertions whose safety is structural.
func classifyPanicSite(c *core.Ctx, fn *ssa.Function, in ssa.Instruction) (why, bad string, decided bool) {
	ta, ok := in.(*ssa.TypeAssert)
	if !ok {
		return "", "", false
	}
	name := shortName(fn)
	// A. marshaler interfaces
	if fam, ok := marshalerFamilies[name]; ok {
		sites, problems := verifyMarshalerFamily(c, fam[0], fam[1])
		if sites == 0 {
			return "", "no call of " + fam[0] + " found", true
		}
		if len(problems) > 0 {
			sort.Strings(problems)
			return "", problems[0], true
		}
		return fmt.Sprintf("all %d call sites of %s are under the matching Implements(%s) guard", sites, fam[0], fam[1]), "", true
	}
	// B. value taken from a sync.Pool
	for _, o := range origins(ta.X) {
		call, ok := o.(*ssa.Call)
		if !ok {
			continue
		}
		pool, m, ok := poolOp(call)
		if !ok || m != "Get" {
			continue
		}
		want := typeShort(ta.AssertedType)
		n := 0
		for _, f2 := range c.RepoFunctions() {
			for _, ci := range callsIn(f2) {
				p2, m2, ok := poolOp(ci)
				if !ok || p2 != pool || m2 != "Put" {
					continue
				}
				n++
				arg := ci.Common().Args[1]
				if mi, ok := arg.(*ssa.MakeInterface); ok {
					if typeShort(mi.X.Type()) != want {
						return "", fmt.Sprintf("%s puts a %s into %s", shortName(f2), typeShort(mi.X.Type()), pool), true
					}
				} else {
					return "", fmt.Sprintf("%s puts a value of unknown dynamic type into %s", shortName(f2), pool), true
				}
			}
		}
		// the pool's New function, if any, returns the same type
		for _, nf := range poolNewFuncs(c, pool) {
			for _, r := range returnsOf(nf) {
				if len(r.Results) == 1 {
					if mi, ok := r.Results[0].(*ssa.MakeInterface); !ok || typeShort(mi.X.Type()) != want {
						return "", fmt.Sprintf("%s.New does not return a %s", pool, want), true
					}
				}
			}
		}
		return fmt.Sprintf("every value put into %s (%d Put sites) and returned by its New is a %s", pool, n, want), "", true
	}
	// C. element values stored by the same function
	if ld, ok := ta.X.(*ssa.UnOp); ok {
		if fa, ok := ld.X.(*ssa.FieldAddr); ok && fieldNameOf(fa) == "val" {
			want := typeShort(ta.AssertedType)
			n := 0
			for _, blk := range fn.Blocks {
				for _, in2 := range blk.Instrs {
					st, ok := in2.(*ssa.Store)
					if !ok {
						continue
					}
					fa2, ok := st.Addr.(*ssa.FieldAddr)
					if !ok || fieldNameOf(fa2) != "val" {
						continue
					}
					if k, isK := st.Val.(*ssa.Const); isK && k.Value == nil {
						continue // zeroing
					}
					n++
					mi, ok := st.Val.(*ssa.MakeInterface)
					if !ok || typeShort(mi.X.Type()) != want {
						return "", "the same function stores an element value of another type", true
					}
				}
			}
			if n == 0 {
				return "", "no store of the element value found in the function that asserts its type", true
			}
			return fmt.Sprintf("the %d element value(s) stored by this function are %s, and the pooled scratch is returned empty (R-POOL)", n, want), "", true
		}
	}
	// E. proto message / custom codecs: selected in codecOf under implements(t, X)
	if strings.HasPrefix(name, "proto.custom") || strings.HasPrefix(name, "proto.message") {
		ctor, global := "customCodecOf", "customMessageType"
		if strings.HasPrefix(name, "proto.message") {
			ctor, global = "messageCodecOf", "messageType"
		}
		sites := 0
		for _, f2 := range c.RepoFunctions() {
			if !strings.HasPrefix(shortName(f2), "proto.") {
				continue
			}
			for _, ci := range callsIn(f2) {
				callee := staticCallee(ci.Common())
				if callee == nil || callee.Name() != ctor {
					continue
				}
				sites++
				guarded := false
				for _, cond := range trueAtoms(ci.Block(), 0) {
					call, ok := cond.(*ssa.Call)
					if !ok {
						continue
					}
					if f := staticCallee(call.Common()); f != nil && f.Name() == "implements" && len(call.Common().Args) == 2 {
						if g := globalOfLoad(call.Common().Args[1]); g != nil && g.Name() == global {
							guarded = true
						}
					}
				}
				if !guarded {
					return "", fmt.Sprintf("%s is called at %s without an implements(t, %s) guard", ctor, c.InstrPos(ci), global), true
				}
			}
		}
		if sites == 0 {
			return "", "no call of " + ctor + " found", true
		}
		// the codec asserts on reflect.NewAt(t, p), a *T: the guard must establish that *T
		// implements the interface. "T implements" is not enough when T is itself a pointer type
		// (*M with methods): **M has an empty method set.
		if impl := c.Lookup("proto.implements"); impl != nil {
			for _, r := range returnsOf(impl) {
				if len(r.Results) != 1 {
					continue
				}
				for _, o := range origins(r.Results[0]) {
					if k, isK := o.(*ssa.Const); isK {
						if k.Value != nil && k.Value.String() == "true" {
							return "", "implements(t, iface) also answers true when only t itself implements the interface (t.Implements(iface)): for a pointer type *M that has the methods, the codec then asserts the interface on **M, whose method set is empty — Size/Marshal panic for &M{} and for any struct with a *M field", true
						}
						continue
					}
					call, isCall := o.(*ssa.Call)
					if !isCall || !call.Common().IsInvoke() || call.Common().Method.Name() != "Implements" {
						return "", "implements() returns something else than the result of an Implements call", true
					}
					recvOK := false
					for _, ro := range origins(call.Common().Value) {
						if rc, isRC := ro.(*ssa.Call); isRC {
							n := calleeName(rc.Common())
							if n == "reflect.PointerTo" || n == "reflect.PtrTo" {
								recvOK = true
							}
						}
					}
					if !recvOK {
						return "", "implements(t, iface) answers through t.Implements(iface): for a pointer type *M that has the methods, the codec then asserts the interface on **M, whose method set is empty — Size/Marshal panic for &M{} and for any struct with a *M field", true
					}
				}
			}
		} else {
			return "", "proto.implements not found", true
		}
		return fmt.Sprintf("all %d call site(s) of %s are under implements(t, %s), which answers PointerTo(t).Implements(iface): exactly what the assertion on *T needs", sites, ctor, global), "", true
	}
	return "", "", false
}

func globalOfLoad(v ssa.Value) *ssa.Global {
	for _, o := range origins(v) {
		if u, ok := o.(*ssa.UnOp); ok {
			if g, ok := u.X.(*ssa.Global); ok {
				return g
			}
		}
		if g, ok := o.(*ssa.Global); ok {
			return g
		}
	}
	return nil
}

// poolNewFuncs: the functions stored into the New field of the pool global "pkg.name".
func poolNewFuncs(c *core.Ctx, pool string) []*ssa.Function {
	var out []*ssa.Function
	for _, fn := range c.RepoFunctions() {
		if !isInitFunc(fn) {
			continue
		}
		for _, blk := range fn.Blocks {
			for _, in := range blk.Instrs {
				st, ok := in.(*ssa.Store)
				if !ok {
					continue
				}
				fa, ok := st.Addr.(*ssa.FieldAddr)
				if !ok || fieldNameOf(fa) != "New" {
					continue
				}
				g, ok := fa.X.(*ssa.Global)
				if !ok || g.Pkg.Pkg.Name()+"."+g.Name() != pool {
					continue
				}
				switch f := st.Val.(type) {
				case *ssa.Function:
					out = append(out, f)
				case *ssa.MakeClosure:
					out = append(out, f.Fn.(*ssa.Function))
				}
			}
		}
	}
	return out
}
