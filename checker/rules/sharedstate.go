package rules

import (
	"fmt"
	"go/token"
	"go/types"
	"sort"
	"strings"

	"golang.org/x/tools/go/ssa"

	"verif/checker/core"
)

// Shared-state discipline (C09, C10): R-GLOBAL, R-COW, R-POOL, R-CLOSURE.

func init() {
	Register(&Rule{
		ID:    "R-GLOBAL",
		Doc:   "every package-level variable is init-only (all stores in init/initialisers), or of a sync/atomic type accessed only through methods; no store or map update rooted at a global outside init",
		Props: []string{"C09"},
		Min:   map[string]int{"C09": 60},
		Run:   runGlobal,
	})
	Register(&Rule{
		ID:    "R-COW",
		Doc:   "each atomically published cache: the value stored is a map made in the same function, never updated after the Store; no map derived from a Load() is ever updated or deleted from (interprocedural taint); publishers are not reachable from recursive constructors; mutex-guarded caches store under Lock with deferred Unlock",
		Props: []string{"C09", "C03", "C04", "C06"},
		Min:   map[string]int{"C09": 8},
		Run:   runCOW,
	})
	Register(&Rule{
		ID:    "R-POOL",
		Doc:   "typestate per sync.Pool object x := P.Get(): after P.Put(x) no use of x or of memory loaded from it; nothing derived from x's memory flows to a return (copy-out); a released tokenizer stack is dropped from its owner",
		Props: []string{"C09", "C10", "C17", "C03", "C06", "C01", "C14", "C12", "C05", "C04", "C13", "C07"},
		Min:   map[string]int{"C09": 7, "C10": 2, "C17": 1, "C03": 1, "C06": 5, "C01": 5, "C14": 5, "C12": 1},
		Run:   runPool,
	})
	Register(&Rule{
		ID:    "R-CLOSURE",
		Doc:   "steady-state code (codec-typed functions, encoder/decoder methods and their helpers) never stores through a captured variable shared between calls and never stores into a descriptor object (types reachable from the published caches); such stores are legal only in constructors",
		Props: []string{"C09", "C04", "C03"},
		Min:   map[string]int{"C09": 100},
		Run:   runClosure,
	})
}

func isSyncType(t types.Type) bool {
	for {
		switch x := t.(type) {
		case *types.Pointer:
			t = x.Elem()
			continue
		case *types.Named:
			if p := x.Obj().Pkg(); p != nil && (p.Path() == "sync" || p.Path() == "sync/atomic") {
				return true
			}
		}
		return false
	}
}

func isInitFunc(fn *ssa.Function) bool {
	for f := fn; f != nil; f = f.Parent() {
		if f.Name() == "init" || strings.HasPrefix(f.Name(), "init#") {
			return true
		}
	}
	return false
}

// rootGlobal follows an address back through field/index addressing to a Global.
func rootGlobal(addr ssa.Value) *ssa.Global {
	for i := 0; i < 10; i++ {
		switch x := addr.(type) {
		case *ssa.Global:
			return x
		case *ssa.FieldAddr:
			addr = x.X
		case *ssa.IndexAddr:
			addr = x.X
		case *ssa.Slice:
			addr = x.X
		case *ssa.ChangeType:
			addr = x.X
		case *ssa.Convert:
			addr = x.X
		default:
			return nil
		}
	}
	return nil
}

func repoSSAFuncs(c *core.Ctx) []*ssa.Function { return c.RepoFunctions() }

func runGlobal(c *core.Ctx) []core.Obligation {
	b := newOb(c, "R-GLOBAL", "C09")
	type ginfo struct {
		g      *ssa.Global
		writes []string
	}
	infos := map[*ssa.Global]*ginfo{}
	for _, p := range c.Pkgs {
		sp := c.SSAPkg[p.PkgPath]
		if sp == nil {
			continue
		}
		for _, m := range sp.Members {
			if g, ok := m.(*ssa.Global); ok && !strings.HasPrefix(g.Name(), "init$") {
				infos[g] = &ginfo{g: g}
			}
		}
	}
	for _, fn := range repoSSAFuncs(c) {
		if isInitFunc(fn) {
			continue
		}
		for _, blk := range fn.Blocks {
			for _, in := range blk.Instrs {
				switch x := in.(type) {
				case *ssa.Store:
					if g := rootGlobal(x.Addr); g != nil && infos[g] != nil {
						infos[g].writes = append(infos[g].writes, fmt.Sprintf("store in %s at %s", shortName(fn), c.InstrPos(x)))
					}
				case *ssa.MapUpdate:
					if u, ok := x.Map.(*ssa.UnOp); ok && u.Op == token.MUL {
						if g := rootGlobal(u.X); g != nil && infos[g] != nil {
							infos[g].writes = append(infos[g].writes, fmt.Sprintf("map update in %s at %s", shortName(fn), c.InstrPos(x)))
						}
					}
				case *ssa.Call:
					// append/copy/delete into a global's storage
					if bi, ok := x.Common().Value.(*ssa.Builtin); ok && (bi.Name() == "copy" || bi.Name() == "delete") && len(x.Common().Args) > 0 {
						a := x.Common().Args[0]
						if u, ok := a.(*ssa.UnOp); ok && u.Op == token.MUL {
							a = u.X
						}
						if g := rootGlobal(a); g != nil && infos[g] != nil {
							infos[g].writes = append(infos[g].writes, fmt.Sprintf("%s in %s at %s", bi.Name(), shortName(fn), c.InstrPos(x)))
						}
					}
				}
			}
		}
	}
	var gs []*ssa.Global
	for g := range infos {
		gs = append(gs, g)
	}
	sort.Slice(gs, func(i, j int) bool { return gs[i].Pkg.Pkg.Name()+gs[i].Name() < gs[j].Pkg.Pkg.Name()+gs[j].Name() })
	for _, g := range gs {
		key := g.Pkg.Pkg.Name() + "." + g.Name()
		elem := g.Type().(*types.Pointer).Elem()
		inf := infos[g]
		switch {
		case len(inf.writes) > 0 && !isSyncType(elem):
			b.bad(key, c.PosOf(g.Pos()), fmt.Sprintf("package-level variable %s is written outside init without synchronisation: %s", key, strings.Join(inf.writes, "; ")))
		case len(inf.writes) > 0:
			b.bad(key, c.PosOf(g.Pos()), fmt.Sprintf("sync-typed variable %s is overwritten by a plain store: %s", key, strings.Join(inf.writes, "; ")))
		case isSyncType(elem):
			b.ok(key, c.PosOf(g.Pos()), "sync/atomic typed, accessed through methods only")
		default:
			b.ok(key, c.PosOf(g.Pos()), "init-only")
		}
	}
	return b.out
}

// ---------------------------------------------------------------------------------------------
// R-COW

// atomicOp recognises a method call on a sync/atomic value rooted at a package-level variable.
func atomicOp(call *ssa.Call) (g *ssa.Global, method string) {
	f := staticCallee(call.Common())
	if f == nil || len(call.Common().Args) == 0 {
		return nil, ""
	}
	rt := recvTypeOf(f)
	if rt == nil || !isSyncType(rt) {
		return nil, ""
	}
	g = rootGlobal(call.Common().Args[0])
	if g == nil {
		return nil, ""
	}
	return g, methodName(f)
}

// methodName strips the type arguments that go/ssa appends to instantiated generic methods.
func methodName(f *ssa.Function) string {
	if o := f.Object(); o != nil {
		return o.Name()
	}
	n := f.Name()
	if i := strings.Index(n, "["); i >= 0 {
		n = n[:i]
	}
	return n
}

// loadCallsOf returns the atomic Load calls a (map) value originates from.
func loadCallsOf(v ssa.Value) []*ssa.Call {
	var out []*ssa.Call
	seen := map[ssa.Value]bool{}
	var walk func(ssa.Value)
	walk = func(v ssa.Value) {
		if v == nil || seen[v] {
			return
		}
		seen[v] = true
		switch x := v.(type) {
		case *ssa.Call:
			if f := staticCallee(x.Common()); f != nil && methodName(f) == "Load" {
				out = append(out, x)
			}
		case *ssa.TypeAssert:
			walk(x.X)
		case *ssa.Extract:
			walk(x.Tuple)
		case *ssa.Phi:
			for _, e := range x.Edges {
				walk(e)
			}
		case *ssa.UnOp:
			if vals, ok := localStored(x); ok {
				for _, s := range vals {
					walk(s)
				}
			} else {
				walk(x.X)
			}
		case *ssa.ChangeType:
			walk(x.X)
		}
	}
	walk(v)
	return out
}

// recvTypeOf returns the receiver type of a method, also for instantiations of generic methods
// (whose SSA signature carries the receiver as first parameter).
func recvTypeOf(f *ssa.Function) types.Type {
	if r := f.Signature.Recv(); r != nil {
		return r.Type()
	}
	if o, ok := f.Object().(*types.Func); ok && o != nil {
		if sig, ok := o.Type().(*types.Signature); ok && sig.Recv() != nil && len(f.Params) > 0 {
			return f.Params[0].Type()
		}
	}
	if f.Origin() != nil && f.Origin() != f && len(f.Params) > 0 {
		if r := f.Origin().Signature.Recv(); r != nil {
			return f.Params[0].Type()
		}
	}
	return nil
}

// mutexGuardedCaches: caches whose read-modify-write must be serialised (confirmed by reading).
var mutexGuardedCaches = map[string]string{
	"proto.typesCache": "proto.Type values are comparable identities handed to callers; two concurrent misses must not publish two different Types for one Go type",
}

func runCOW(c *core.Ctx) []core.Obligation {
	b := newOb(c, "R-COW", "C09")
	fns := repoSSAFuncs(c)

	// caches: globals with an atomic Store of a map (or pointer to map)
	type storeSite struct {
		fn   *ssa.Function
		call *ssa.Call
		g    *ssa.Global
	}
	var stores []storeSite
	loaded := map[ssa.Value]bool{} // taint: values derived from a Load of a cache
	cacheGlobals := map[*ssa.Global]bool{}
	for _, fn := range fns {
		for _, ci := range callsIn(fn) {
			call, ok := ci.(*ssa.Call)
			if !ok {
				continue
			}
			g, m := atomicOp(call)
			if g == nil {
				continue
			}
			elem := g.Type().(*types.Pointer).Elem()
			if n, ok := elem.(*types.Named); !ok || !(n.Obj().Name() == "Value" || n.Obj().Name() == "Pointer") {
				continue
			}
			switch m {
			case "Store":
				stores = append(stores, storeSite{fn, call, g})
				cacheGlobals[g] = true
			case "Load":
				loaded[call] = true
				cacheGlobals[g] = true
			case "Swap", "CompareAndSwap":
				b.und("cache:"+g.Pkg.Pkg.Name()+"."+g.Name()+":"+m, c.InstrPos(call), "cache updated through "+m+": not an idiom this rule models")
			}
		}
	}

	// (i) interprocedural taint of loaded maps
	retTaint := map[*ssa.Function]bool{}
	paramTaint := map[*ssa.Parameter]bool{}
	for changed := true; changed; {
		changed = false
		mark := func(v ssa.Value) {
			if !loaded[v] {
				loaded[v] = true
				changed = true
			}
		}
		for _, fn := range fns {
			for _, p := range fn.Params {
				if paramTaint[p] {
					mark(p)
				}
			}
			for _, blk := range fn.Blocks {
				for _, in := range blk.Instrs {
					switch x := in.(type) {
					case *ssa.TypeAssert:
						if loaded[x.X] {
							mark(x)
						}
					case *ssa.Extract:
						if loaded[x.Tuple] {
							// comma-ok assert: component 0 is the value
							if _, isTA := x.Tuple.(*ssa.TypeAssert); isTA && x.Index == 0 {
								mark(x)
							}
							if call, isCall := x.Tuple.(*ssa.Call); isCall {
								if f := staticCallee(call.Common()); f != nil && retTaint[f] {
									// only map-typed components carry the published map
									if _, isMap := x.Type().Underlying().(*types.Map); isMap {
										mark(x)
									}
								}
							}
						}
					case *ssa.UnOp:
						if x.Op == token.MUL && loaded[x.X] {
							mark(x)
						}
					case *ssa.Phi:
						for _, e := range x.Edges {
							if loaded[e] {
								mark(x)
							}
						}
					case *ssa.ChangeType:
						if loaded[x.X] {
							mark(x)
						}
					case *ssa.Call:
						f := staticCallee(x.Common())
						if f != nil && c.InRepo(f) {
							for i, a := range x.Common().Args {
								if loaded[a] && i < len(f.Params) && !paramTaint[f.Params[i]] {
									paramTaint[f.Params[i]] = true
									changed = true
								}
							}
							if retTaint[f] {
								mark(x)
							}
						}
					case *ssa.Return:
						for _, r := range x.Results {
							if loaded[r] && !retTaint[fn] {
								retTaint[fn] = true
								changed = true
							}
						}
					}
				}
			}
		}
	}
	nLoadedMaps := 0
	for v := range loaded {
		if _, isMap := v.Type().Underlying().(*types.Map); isMap {
			nLoadedMaps++
		}
	}
	mutated := 0
	for _, fn := range fns {
		for _, blk := range fn.Blocks {
			for _, in := range blk.Instrs {
				switch x := in.(type) {
				case *ssa.MapUpdate:
					if loaded[x.Map] {
						mutated++
						b.bad("published-map-updated:"+shortName(fn), c.InstrPos(x), fmt.Sprintf("%s inserts into a map obtained from an atomic Load of a cache: readers on other goroutines iterate and index that map without synchronisation", shortName(fn)))
					}
				case *ssa.Call:
					if n := calleeName(x.Common()); (strings.HasPrefix(n, "maps.Copy") || strings.HasPrefix(n, "maps.Insert") || strings.HasPrefix(n, "maps.DeleteFunc")) && len(x.Common().Args) > 0 && loaded[x.Common().Args[0]] {
						mutated++
						b.bad("published-map-updated:"+shortName(fn), c.InstrPos(x), fmt.Sprintf("%s writes (%s) into a map obtained from an atomic Load of a cache", shortName(fn), n))
					}
					if bi, ok := x.Common().Value.(*ssa.Builtin); ok && bi.Name() == "delete" && loaded[x.Common().Args[0]] {
						mutated++
						b.bad("published-map-updated:"+shortName(fn), c.InstrPos(x), fmt.Sprintf("%s deletes from a map obtained from an atomic Load of a cache", shortName(fn)))
					}
				}
			}
		}
	}
	if mutated == 0 {
		b.ok("published-maps-read-only", "-", fmt.Sprintf("%d map values derived (interprocedurally) from cache Loads; none is updated or deleted from", nLoadedMaps))
	}

	// (ii)/(iii) per Store
	storeFns := map[*ssa.Function]bool{}
	wrapperArg := map[*ssa.Call]ssa.Value{}
	// a function that merely stores its parameter is a publisher wrapper: the obligations are
	// decided at its call sites
	var expanded []storeSite
	for _, s := range stores {
		storeFns[s.fn] = true
		val := s.call.Common().Args[1]
		if mi, ok := val.(*ssa.MakeInterface); ok {
			val = mi.X
		}
		if prm, ok := val.(*ssa.Parameter); ok {
			idx := -1
			for i, fp := range s.fn.Params {
				if fp == prm {
					idx = i
				}
			}
			found := false
			for _, caller := range fns {
				for _, ci := range callsIn(caller) {
					if call, ok := ci.(*ssa.Call); ok && staticCallee(call.Common()) == s.fn && idx >= 0 {
						// rewrite as a store of the actual argument, in the caller
						fake := *call
						_ = fake
						expanded = append(expanded, storeSite{caller, call, s.g})
						storeFns[caller] = true
						wrapperArg[call] = call.Common().Args[idx]
						found = true
					}
				}
			}
			if !found {
				b.und("cache:"+s.g.Pkg.Pkg.Name()+"."+s.g.Name()+":store@"+shortName(s.fn), c.InstrPos(s.call), "publisher wrapper is never called")
			}
			continue
		}
		expanded = append(expanded, s)
	}
	for _, s := range expanded {
		key := "cache:" + s.g.Pkg.Pkg.Name() + "." + s.g.Name() + ":store@" + shortName(s.fn)
		val := s.call.Common().Args[len(s.call.Common().Args)-1]
		if wa, ok := wrapperArg[s.call]; ok {
			val = wa
		} else {
			val = s.call.Common().Args[1]
		}
		// unwrap: MakeInterface(map) or &local holding the map
		var maps []ssa.Value
		switch x := val.(type) {
		case *ssa.MakeInterface:
			maps = origins(x.X)
		case *ssa.Alloc:
			for _, st := range cellStores(x) {
				maps = append(maps, origins(st)...)
			}
		default:
			maps = origins(val)
		}
		bad := ""
		for _, m := range maps {
			mm, ok := m.(*ssa.MakeMap)
			if !ok || mm.Parent() != s.fn {
				bad = fmt.Sprintf("the value published by %s is %s, not a map made in the same function: a map that other goroutines may already be reading is (re)published after being modified", shortName(s.fn), describeValue(m))
			}
		}
		if len(maps) == 0 {
			bad = "cannot identify the published value"
		}
		if bad == "" {
			// no update after the store
			after := reachableFrom(s.call.Block(), nil)
			for _, blk := range s.fn.Blocks {
				for _, in := range blk.Instrs {
					mu, ok := in.(*ssa.MapUpdate)
					if !ok {
						continue
					}
					isPub := false
					for _, o := range origins(mu.Map) {
						for _, m := range maps {
							if o == m {
								isPub = true
							}
						}
					}
					if !isPub {
						continue
					}
					if (blk == s.call.Block() && instrIndex(mu) > instrIndex(s.call)) || (blk != s.call.Block() && after[blk]) {
						bad = fmt.Sprintf("%s updates the map at %s after publishing it", shortName(s.fn), c.InstrPos(mu))
					}
				}
			}
		}
		if bad != "" {
			b.bad(key, c.InstrPos(s.call), bad)
		} else {
			b.ok(key, c.InstrPos(s.call), "publishes a map made in this function, not updated afterwards")
		}

		// (v) mutex
		var lock *ssa.Call
		deferredUnlock := false
		for _, blk := range s.fn.Blocks {
			for _, in := range blk.Instrs {
				switch x := in.(type) {
				case *ssa.Call:
					if f := staticCallee(x.Common()); f != nil && f.Name() == "Lock" && isSyncType(f.Signature.Recv().Type()) {
						lock = x
					}
				case *ssa.Defer:
					if f := staticCallee(x.Common()); f != nil && f.Name() == "Unlock" {
						deferredUnlock = true
					}
				}
			}
		}
		gname := s.g.Pkg.Pkg.Name() + "." + s.g.Name()
		if why, must := mutexGuardedCaches[gname]; must && lock == nil {
			b.bad(key+":mutex", c.InstrPos(s.call), fmt.Sprintf("%s publishes %s without holding a mutex: %s", shortName(s.fn), gname, why))
		}
		if lock != nil {
			// the snapshot copied into the new map must have been loaded under the lock
			for _, blk := range s.fn.Blocks {
				for _, in := range blk.Instrs {
					var src ssa.Value
					switch x := in.(type) {
					case *ssa.Range:
						src = x.X
					case *ssa.Call:
						if n := calleeName(x.Common()); strings.HasPrefix(n, "maps.Copy") && len(x.Common().Args) == 2 {
							src = x.Common().Args[1]
						}
					}
					if src == nil || !loaded[src] {
						continue
					}
					for _, ld := range loadCallsOf(src) {
						if !instrDominates(lock, ld) {
							b.bad(key+":snapshot-under-lock", c.InstrPos(in), fmt.Sprintf("%s builds the map it publishes from a snapshot loaded at %s, before taking the mutex: entries published by a concurrent miss in between are lost, so the same Go type is later mapped to a different value", shortName(s.fn), c.InstrPos(ld)))
						}
					}
				}
			}
			k2 := key + ":mutex"
			if instrDominates(lock, s.call) && deferredUnlock {
				b.ok(k2, c.InstrPos(lock), "Store dominated by Lock with deferred Unlock")
			} else {
				b.bad(k2, c.InstrPos(s.call), "this cache's miss path takes a mutex, but the Store is not dominated by Lock with a deferred Unlock")
			}
		}
	}
	for g := range cacheGlobals {
		n := 0
		for _, s := range stores {
			if s.g == g {
				n++
			}
		}
		if n == 0 {
			b.und("cache:"+g.Pkg.Pkg.Name()+"."+g.Name(), c.PosOf(g.Pos()), "cache is loaded but never stored")
		}
	}

	// (iv) publishers are not reachable from recursive constructors
	callees := map[*ssa.Function][]*ssa.Function{}
	for _, fn := range fns {
		for _, ci := range callsIn(fn) {
			if f := staticCallee(ci.Common()); f != nil && c.InRepo(f) {
				callees[fn] = append(callees[fn], f)
			}
		}
		for _, a := range fn.AnonFuncs {
			_ = a
		}
	}
	reach := func(from *ssa.Function) map[*ssa.Function]bool {
		seen := map[*ssa.Function]bool{}
		var walk func(*ssa.Function)
		walk = func(f *ssa.Function) {
			for _, g := range callees[f] {
				if !seen[g] {
					seen[g] = true
					walk(g)
				}
			}
		}
		walk(from)
		return seen
	}
	nrec := 0
	for _, fn := range fns {
		// construction recursion threads a memo: a map parameter keyed by reflect.Type
		hasMemo := false
		for _, prm := range fn.Params {
			if m, ok := prm.Type().Underlying().(*types.Map); ok && strings.HasSuffix(m.Key().String(), "reflect.Type") {
				hasMemo = true
			}
		}
		if !hasMemo {
			continue
		}
		r := reach(fn)
		if !r[fn] {
			continue // not recursive
		}
		nrec++
		for sf := range storeFns {
			if r[sf] {
				b.bad("publisher-in-recursion:"+shortName(fn), c.FuncPos(fn), fmt.Sprintf("recursive constructor %s can reach %s, which publishes the shared cache: half-built codecs of a recursive type become visible to other goroutines", shortName(fn), shortName(sf)))
			}
		}
	}
	b.ok("publishers-outside-recursion", "-", fmt.Sprintf("%d recursive constructors (functions threading a map[reflect.Type] memo) examined; none reaches a cache publisher (%d publishers)", nrec, len(storeFns)))
	// ---- publish, then never touch: an object handed to a concurrent container (sync.Map,
	// atomic.Value / atomic.Pointer) is complete at that moment; the publishing function does not
	// write through it afterwards
	{
		nPub := 0
		for _, fn := range repoSSAFuncs(c) {
			if fn.Blocks == nil || isInitFunc(fn) {
				continue
			}
			for _, ci := range callsIn(fn) {
				cc := ci.Common()
				n := calleeName(cc)
				isPub := false
				switch {
				case strings.HasPrefix(n, "(*sync.Map).") && (strings.HasSuffix(n, ".Store") || strings.HasSuffix(n, ".LoadOrStore") || strings.HasSuffix(n, ".Swap")):
					isPub = true
				case strings.HasPrefix(n, "(*sync/atomic.Value).Store"), strings.Contains(n, "sync/atomic.Pointer") && strings.Contains(n, ".Store"):
					isPub = true
				}
				if !isPub {
					continue
				}
				nPub++
				// pointers published by this call
				var objs []ssa.Value
				for _, a := range cc.Args[1:] {
					if mi, ok := a.(*ssa.MakeInterface); ok {
						a = mi.X
					}
					if isPointerLike(a.Type()) {
						objs = append(objs, a)
					}
				}
				after := reachableFrom(ci.Block(), nil)
				for _, obj := range objs {
					key := fmt.Sprintf("publish-then-frozen:%s:%s", shortName(fn), n)
					bad := ""
					for _, blk := range fn.Blocks {
						if !after[blk] {
							continue
						}
						for _, in := range blk.Instrs {
							if blk == ci.Block() && instrIndex(in) <= instrIndex(ci) {
								continue
							}
							switch x := in.(type) {
							case *ssa.Store:
								if derivesFromValue(x.Addr, obj) && x.Addr != obj {
									bad = c.InstrPos(x)
								}
							case *ssa.MapUpdate:
								if derivesFromValue(x.Map, obj) {
									bad = c.InstrPos(x)
								}
							}
						}
					}
					if bad != "" {
						b.bad(key, bad, fmt.Sprintf("%s publishes an object through %s and keeps writing to it afterwards (%s): other goroutines that find it in the container see it half-built", shortName(fn), n, bad))
					} else {
						b.ok(key, c.InstrPos(ci), "the published object is not written after publication in this function")
					}
				}
			}
		}
		if nPub == 0 {
			b.ok("publish-then-frozen:none", "-", "no sync.Map / atomic publication outside the caches checked above")
		}
	}

	// a published map written in place is also a crash of the call that does it ("concurrent map
	// writes" is fatal, not a panic): the obligation is registered for the package's "never fails"
	// property as well
	for i := range b.out {
		switch {
		case strings.Contains(b.out[i].Key, "proto."):
			b.out[i].Props = append(append([]string{}, b.out[i].Props...), "C03")
		case strings.Contains(b.out[i].Key, "thrift."):
			b.out[i].Props = append(append([]string{}, b.out[i].Props...), "C04")
		case strings.Contains(b.out[i].Key, "json."):
			b.out[i].Props = append(append([]string{}, b.out[i].Props...), "C06")
		}
	}
	return b.out
}

// ---------------------------------------------------------------------------------------------
// R-POOL

func poolOp(call ssa.CallInstruction) (pool string, method string, ok bool) {
	f := staticCallee(call.Common())
	if f == nil || f.Signature.Recv() == nil || len(call.Common().Args) == 0 {
		return "", "", false
	}
	rt := f.Signature.Recv().Type()
	if p, isP := rt.(*types.Pointer); isP {
		rt = p.Elem()
	}
	n, isN := rt.(*types.Named)
	if !isN || n.Obj().Name() != "Pool" || n.Obj().Pkg() == nil || n.Obj().Pkg().Path() != "sync" {
		return "", "", false
	}
	recv := call.Common().Args[0]
	id := "?"
	if g := rootGlobal(recv); g != nil {
		id = g.Pkg.Pkg.Name() + "." + g.Name()
	} else {
		for _, o := range origins(recv) {
			switch x := o.(type) {
			case *ssa.Alloc:
				id = shortName(x.Parent()) + "." + x.Comment
			case *ssa.UnOp:
				if fv, ok := x.X.(*ssa.FreeVar); ok {
					id = shortName(fv.Parent()) + "." + fv.Name()
				}
			case *ssa.FreeVar:
				id = shortName(x.Parent()) + "." + x.Name()
			}
		}
	}
	return id, methodName(f), true
}

func runPool(c *core.Ctx) []core.Obligation {
	b := newOb(c, "R-POOL", "C09", "C10")
	fns := repoSSAFuncs(c)

	// wrappers: functions whose result is a pooled object (acquireStack) / that Put their parameter (releaseStack)
	getWrapper := map[*ssa.Function]string{}
	putWrapper := map[*ssa.Function]string{}
	for _, fn := range fns {
		for _, ci := range callsIn(fn) {
			pool, m, ok := poolOp(ci)
			if !ok {
				continue
			}
			switch m {
			case "Get":
				// a wrapper returns the pooled object itself (through assertions/φ), not memory inside it
				for _, r := range returnsOf(fn) {
					for _, res := range r.Results {
						if isSameObject(res, ci.Value()) {
							getWrapper[fn] = pool
						}
					}
				}
			case "Put":
				if len(ci.Common().Args) > 1 {
					arg := ci.Common().Args[1]
					for _, p := range fn.Params {
						if dependsOn(arg, func(v ssa.Value) bool { return v == ssa.Value(p) }) {
							putWrapper[fn] = pool
						}
					}
				}
			}
		}
	}

	for _, fn := range fns {
		if getWrapper[fn] != "" || putWrapper[fn] != "" {
			// wrappers are checked at their call sites
			key := "pool:" + getWrapper[fn] + putWrapper[fn] + ":wrapper@" + shortName(fn)
			b.ok(key, c.FuncPos(fn), "pool wrapper: obligations are decided at its call sites")
			continue
		}
		type getSite struct {
			pool string
			v    ssa.Value
			at   ssa.Instruction
		}
		var gets []getSite
		var puts []struct {
			pool string
			arg  ssa.Value
			at   ssa.Instruction
		}
		for _, ci := range callsIn(fn) {
			if pool, m, ok := poolOp(ci); ok {
				switch m {
				case "Get":
					gets = append(gets, getSite{pool, ci.Value(), ci})
				case "Put":
					puts = append(puts, struct {
						pool string
						arg  ssa.Value
						at   ssa.Instruction
					}{pool, ci.Common().Args[1], ci})
				}
				continue
			}
			if f := staticCallee(ci.Common()); f != nil {
				if pool := getWrapper[f]; pool != "" && ci.Value() != nil {
					gets = append(gets, getSite{pool, ci.Value(), ci})
				}
				if pool := putWrapper[f]; pool != "" && len(ci.Common().Args) > 0 {
					puts = append(puts, struct {
						pool string
						arg  ssa.Value
						at   ssa.Instruction
					}{pool, ci.Common().Args[0], ci})
				}
			}
		}
		props := []string{"C09", "C10"}
		if strings.Contains(shortName(fn), "Tokenizer") {
			props = []string{"C09", "C17"}
		}
		if strings.HasPrefix(shortName(fn), "proto.") {
			props = []string{"C09", "C03", "C12", "C07"} // what a rejected input leaves in pooled scratch shows up in the next, valid, decode
		}
		if strings.HasPrefix(shortName(fn), "thrift.") {
			// bytes handed out and then overwritten are no longer the specification's encoding of the value
			props = []string{"C09", "C10", "C04", "C13"}
		}
		if n := shortName(fn); n == "json.Marshal" || n == "json.MarshalIndent" {
			// the bytes returned are what the caller compares with encoding/json's: memory that
			// the pool hands out again is overwritten by the next Marshal
			props = []string{"C09", "C10", "C01"}
		}
		// derived-from-x within fn
		derivedFrom := func(x ssa.Value) map[ssa.Value]bool {
			d := map[ssa.Value]bool{x: true}
			for changed := true; changed; {
				changed = false
				for _, blk := range fn.Blocks {
					for _, in := range blk.Instrs {
						v, ok := in.(ssa.Value)
						if !ok || d[v] {
							continue
						}
						hit := false
						switch y := in.(type) {
						case *ssa.TypeAssert:
							hit = d[y.X]
						case *ssa.Extract:
							hit = d[y.Tuple] && (isSliceType(y.Type()) || isPointerLike(y.Type()) || isStringType(y.Type()) || isIfaceType(y.Type()) && !isErrorType(y.Type()))
						case *ssa.FieldAddr:
							hit = d[y.X]
						case *ssa.IndexAddr:
							hit = d[y.X]
						case *ssa.Slice:
							hit = d[y.X]
						case *ssa.UnOp:
							hit = d[y.X]
						case *ssa.Phi:
							for _, e := range y.Edges {
								hit = hit || d[e]
							}
						case *ssa.ChangeType:
							hit = d[y.X]
						case *ssa.Convert:
							hit = d[y.X]
						case *ssa.MakeInterface:
							hit = d[y.X]
						case *ssa.Call:
							// a callee that receives pooled memory and returns a slice/pointer may return it
							if _, isB := y.Common().Value.(*ssa.Builtin); isB {
								if y.Common().Value.(*ssa.Builtin).Name() == "append" {
									hit = d[y.Common().Args[0]]
								}
								break
							}
							if _, _, isPool := poolOp(y); isPool {
								break
							}
							for _, a := range y.Common().Args {
								if d[a] && (isPointerLike(a.Type()) || isSliceType(a.Type())) && (isSliceType(y.Type()) || isPointerLike(y.Type()) || isTupleWithRef(y.Type())) {
									hit = true
								}
							}
						}
						if hit {
							d[v] = true
							changed = true
						}
					}
				}
			}
			return d
		}
		for _, g := range gets {
			key := "pool:" + g.pool + ":get@" + shortName(fn)
			d := derivedFrom(g.v)
			var problems []string
			// matching puts
			nput := 0
			for _, p := range puts {
				if p.pool != g.pool || !d[p.arg] {
					continue
				}
				nput++
				if _, deferred := p.at.(*ssa.Defer); deferred {
					continue // runs at function exit: nothing in this function comes after it
				}
				after := reachableFrom(p.at.Block(), nil)
				for _, blk := range fn.Blocks {
					for _, in := range blk.Instrs {
						if in == p.at {
							continue
						}
						inAfter := (blk == p.at.Block() && instrIndex(in) > instrIndex(p.at)) || (blk != p.at.Block() && after[blk] && !(blk.Dominates(p.at.Block()) && blk != p.at.Block() && !loopHead(blk)))
						if blk == p.at.Block() && instrIndex(in) < instrIndex(p.at) {
							inAfter = inAfter && loopHead(blk)
						}
						if !inAfter {
							continue
						}
						if _, isGet := in.(ssa.CallInstruction); isGet {
							if _, m, ok := poolOp(in.(ssa.CallInstruction)); ok && m == "Get" {
								continue
							}
						}
						var ops []*ssa.Value
						for _, op := range in.Operands(ops) {
							if *op != nil && d[*op] {
								if st, isStore := in.(*ssa.Store); isStore && !d[st.Val] && st.Addr == *op {
									// clearing the owner's reference (t.stack = nil) is the required idiom, not a use
									if isNilConst(st.Val) {
										continue
									}
								}
								problems = append(problems, fmt.Sprintf("%s uses pooled memory (%s) at %s after returning it to the pool at %s: another goroutine may already own it", shortName(fn), describeValue(*op), c.InstrPos(in), c.InstrPos(p.at)))
							}
						}
					}
				}
			}
			// copy-out: nothing derived from x flows to a return
			for _, r := range returnsOf(fn) {
				for _, res := range r.Results {
					if d[res] && (isSliceType(res.Type()) || isPointerLike(res.Type()) || isStringType(res.Type())) {
						problems = append(problems, fmt.Sprintf("%s returns memory of a pooled object (%s) at %s: the next Get hands the same memory to another caller", shortName(fn), describeValue(res), c.InstrPos(r)))
					}
				}
			}
			if len(problems) > 0 {
				sort.Strings(problems)
				b.addP(props, core.Violation, key, c.InstrPos(g.at), problems[0])
			} else {
				b.addP(props, core.Discharged, key, c.InstrPos(g.at), fmt.Sprintf("%d Put(s) of this object; no use after Put, nothing derived from it returned", nput))
			}
		}
		// scrub-before-put: if the function resets the pooled object (typed zeroing through
		// runtime_reflect.Assign, or truncation of its slices) before one Put, it must do so before
		// every Put — the next Get assumes a clean object
		{
			type putSite struct {
				at    ssa.Instruction
				clean bool
			}
			var ps []putSite
			var anyClean ssa.Instruction
			_ = anyClean
			type putAt struct {
				arg ssa.Value
				at  ssa.Instruction
			}
			var sites []putAt
			for _, p := range puts {
				if _, deferred := p.at.(*ssa.Defer); deferred {
					// a deferred Put takes effect wherever the function runs its defers
					for _, blk := range fn.Blocks {
						for _, in := range blk.Instrs {
							if rd, ok := in.(*ssa.RunDefers); ok && reachableFrom(p.at.Block(), nil)[blk] {
								sites = append(sites, putAt{p.arg, rd})
							}
						}
					}
					continue
				}
				sites = append(sites, putAt{p.arg, p.at})
			}
			for _, p := range sites {
				site := putSite{at: p.at}
				for _, blk := range fn.Blocks {
					for _, in := range blk.Instrs {
						if st, ok := in.(*ssa.Store); ok {
							// truncation of a slice field of the pooled object: s.elements = s.elements[:0]
							fa, isFA := st.Addr.(*ssa.FieldAddr)
							sl, isSl := st.Val.(*ssa.Slice)
							if !isFA || !isSl || sl.High == nil {
								continue
							}
							if k, ok := constInt(sl.High); !ok || k != 0 {
								continue
							}
							parg := p.arg
							if mi, ok := parg.(*ssa.MakeInterface); ok {
								parg = mi.X
							}
							if fa.X == parg || isSameObject(fa.X, parg) || isSameObject(parg, fa.X) {
								// a reset anywhere in the function shows the object needs one;
								// it only counts for this Put if it happens on every path to it
								anyClean = st
								if instrDominates(st, p.at) {
									site.clean = true
								}
							}
							continue
						}
						call, ok := in.(*ssa.Call)
						if !ok {
							continue
						}
						n := calleeName(call.Common())
						if !strings.HasSuffix(n, "runtime_reflect.Assign") || len(call.Common().Args) != 3 {
							continue
						}
						// Put(any(x)) / Assign(t, x, zero): same object?
						parg := p.arg
						if mi, ok := parg.(*ssa.MakeInterface); ok {
							parg = mi.X
						}
						if call.Common().Args[1] == parg {
							anyClean = call
							if instrDominates(call, p.at) {
								site.clean = true
							}
						}
					}
				}
				ps = append(ps, site)
			}
			if anyClean != nil {
				props := props
				if strings.HasPrefix(shortName(fn), "json.(encoder)") {
					// a dirty scratch slice makes the sibling encoders panic on a stale element or emit extra members
					props = append(append([]string{}, props...), "C06", "C01", "C14")
				}
				if strings.Contains(shortName(fn), "RawMessage") {
					// … or refuse the next, valid, map of raw messages with the previous one's error
					props = append(append([]string{}, props...), "C05")
				}
				for _, site := range ps {
					key := "pool:scrub-before-put@" + shortName(fn)
					if site.clean {
						b.addP(props, core.Discharged, key, c.InstrPos(site.at), "the pooled object is reset to its zero value before this Put")
					} else {
						b.addP(props, core.Violation, key, c.InstrPos(site.at), fmt.Sprintf("%s returns the scratch object to the pool at %s without the reset (%s) having happened on every path to it: the next caller starts from stale contents", shortName(fn), c.InstrPos(site.at), c.InstrPos(anyClean)))
					}
				}
			}
		}
		// owner field must be cleared after release through a wrapper: releaseStack(t.stack); t.stack = nil
		for _, p := range puts {
			ld, ok := p.arg.(*ssa.UnOp)
			if !ok || ld.Op != token.MUL {
				continue
			}
			fa, ok := ld.X.(*ssa.FieldAddr)
			if !ok {
				continue
			}
			key := "pool:" + p.pool + ":release-owner@" + shortName(fn) + ":" + fieldAddrID(fa)
			cleared := false
			for _, blk := range fn.Blocks {
				for _, in := range blk.Instrs {
					st, ok := in.(*ssa.Store)
					if !ok {
						continue
					}
					sfa, ok := st.Addr.(*ssa.FieldAddr)
					if ok && fieldAddrID(sfa) == fieldAddrID(fa) && isNilConst(st.Val) && (instrDominates(p.at, st) || postDominatesSimple(p.at, st)) {
						cleared = true
					}
				}
			}
			if cleared {
				b.addP(props, core.Discharged, key, c.InstrPos(p.at), "owner's reference is set to nil after the release on every path")
			} else {
				b.addP(props, core.Violation, key, c.InstrPos(p.at), fmt.Sprintf("%s releases %s to the pool but keeps the reference: the owner continues to use a stack that another Tokenizer may acquire", shortName(fn), fieldAddrID(fa)))
			}
		}
	}
	return b.out
}

// isSameObject: v is x seen through type assertions, tuple extraction, φ and local cells.
func isSameObject(v, x ssa.Value) bool {
	seen := map[ssa.Value]bool{}
	var walk func(ssa.Value) bool
	walk = func(v ssa.Value) bool {
		if v == x {
			return true
		}
		if v == nil || seen[v] {
			return false
		}
		seen[v] = true
		switch y := v.(type) {
		case *ssa.TypeAssert:
			return walk(y.X)
		case *ssa.Extract:
			return walk(y.Tuple)
		case *ssa.ChangeType:
			return walk(y.X)
		case *ssa.Phi:
			for _, e := range y.Edges {
				if walk(e) {
					return true
				}
			}
		case *ssa.UnOp:
			if vals, ok := localStored(y); ok {
				for _, s := range vals {
					if walk(s) {
						return true
					}
				}
			}
		}
		return false
	}
	return walk(v)
}

// postDominatesSimple: st is in the same block after at, or in a block that at's block always flows into.
func postDominatesSimple(at ssa.Instruction, st ssa.Instruction) bool {
	if at.Block() == st.Block() {
		return instrIndex(st) > instrIndex(at)
	}
	b := at.Block()
	for i := 0; i < 4 && len(b.Succs) == 1; i++ {
		b = b.Succs[0]
		if b == st.Block() {
			return true
		}
	}
	return false
}

func isIfaceType(t types.Type) bool {
	_, ok := t.Underlying().(*types.Interface)
	return ok
}

func isSliceType(t types.Type) bool {
	_, ok := t.Underlying().(*types.Slice)
	return ok
}

func isStringType(t types.Type) bool {
	b, ok := t.Underlying().(*types.Basic)
	return ok && b.Kind() == types.String
}

func isTupleWithRef(t types.Type) bool {
	tup, ok := t.(*types.Tuple)
	if !ok {
		return false
	}
	for i := 0; i < tup.Len(); i++ {
		if isSliceType(tup.At(i).Type()) || isPointerLike(tup.At(i).Type()) {
			return true
		}
	}
	return false
}

// ---------------------------------------------------------------------------------------------
// R-CLOSURE

// taintedAny: base is a load of a local cell (or captured cell) known to hold descriptor memory.
func taintedAny(base ssa.Value, cells map[*ssa.Alloc]string, binding func(*ssa.FreeVar) *ssa.Alloc) bool {
	ld, ok := base.(*ssa.UnOp)
	if !ok {
		return false
	}
	switch cell := ld.X.(type) {
	case *ssa.Alloc:
		return cells[cell] != ""
	case *ssa.FreeVar:
		if a := binding(cell); a != nil {
			return cells[a] != ""
		}
	}
	return false
}

var descriptorTypes = map[string]bool{
	"json.structType": true, "json.structField": true, "json.codec": true,
	"proto.codec": true, "proto.structField": true, "proto.mapField": true, "proto.repeatedField": true,
	"proto.structType": true, "proto.mapType": true, "proto.primitiveType": true, "proto.Field": true,
	"thrift.structEncoder": true, "thrift.structDecoder": true, "thrift.structEncoderField": true, "thrift.structDecoderField": true,
}

func namedKey(t types.Type) string {
	if p, ok := t.(*types.Pointer); ok {
		t = p.Elem()
	}
	if n, ok := t.(*types.Named); ok && n.Obj().Pkg() != nil {
		return n.Obj().Pkg().Name() + "." + n.Obj().Name()
	}
	return ""
}

// codecSigs returns the function types through which steady-state code is invoked.
func codecSigs(c *core.Ctx) []types.Type {
	var out []types.Type
	for _, spec := range [][2]string{{"json", "encodeFunc"}, {"json", "decodeFunc"}, {"json", "emptyFunc"}, {"json", "sortFunc"},
		{"proto", "sizeFunc"}, {"proto", "encodeFunc"}, {"proto", "decodeFunc"}, {"thrift", "encodeFunc"}, {"thrift", "decodeFunc"}} {
		if p := c.Pkg(spec[0]); p != nil {
			if tn, ok := p.Types.Scope().Lookup(spec[1]).(*types.TypeName); ok {
				out = append(out, tn.Type().Underlying())
			}
		}
	}
	return out
}

// steadyState returns the functions that run per call (not at codec construction): functions
// with a codec signature, methods of the by-value state types, and their static repo callees.
func steadyState(c *core.Ctx) map[*ssa.Function]bool {
	sigs := codecSigs(c)
	out := map[*ssa.Function]bool{}
	var add func(fn *ssa.Function)
	add = func(fn *ssa.Function) {
		if fn == nil || fn.Blocks == nil || out[fn] || !c.InRepo(fn) {
			return
		}
		out[fn] = true
		for _, ci := range callsIn(fn) {
			if f := staticCallee(ci.Common()); f != nil && c.InRepo(f) && !isConstructor(f) {
				add(f)
			}
		}
		for _, a := range fn.AnonFuncs {
			add(a) // closures created per call
		}
	}
	for _, fn := range c.RepoFunctions() {
		if fn.Synthetic != "" {
			continue
		}
		isCodec := false
		for _, s := range sigs {
			if types.Identical(fn.Signature, s) {
				isCodec = true
			}
			if fn.Signature.Recv() != nil {
				// method value form: drop the receiver
				ps := fn.Signature.Params()
				if types.Identical(types.NewSignatureType(nil, nil, nil, ps, fn.Signature.Results(), fn.Signature.Variadic()), s) {
					isCodec = true
				}
			}
		}
		if recv := fn.Signature.Recv(); recv != nil {
			switch namedKey(recv.Type()) {
			case "json.encoder", "json.decoder", "json.Tokenizer", "thrift.structEncoder", "thrift.structDecoder":
				isCodec = true
			}
		}
		if isCodec {
			add(fn)
		}
	}
	return out
}

// isConstructor: functions that build codecs (they return a codec-typed function or a descriptor).
func isConstructor(fn *ssa.Function) bool {
	res := fn.Signature.Results()
	for i := 0; i < res.Len(); i++ {
		t := res.At(i).Type()
		if _, ok := t.Underlying().(*types.Signature); ok {
			return true
		}
		if descriptorTypes[namedKey(t)] {
			return true
		}
	}
	return false
}

func runClosure(c *core.Ctx) []core.Obligation {
	b := newOb(c, "R-CLOSURE", "C09")
	ss := steadyState(c)
	var fns []*ssa.Function
	for fn := range ss {
		fns = append(fns, fn)
	}
	sort.Slice(fns, func(i, j int) bool { return shortName(fns[i]) < shortName(fns[j]) })
	// descriptor memory aliased into a per-call variable: a slice or map loaded from a descriptor
	// field and kept in a local (possibly merged with a fresh one by a φ) is still the descriptor's
	// memory; the local cells that may hold one are remembered so that closures writing through
	// them are seen
	fromDescriptor := func(v ssa.Value) string {
		seen := map[ssa.Value]bool{}
		var walk func(v ssa.Value) string
		walk = func(v ssa.Value) string {
			if v == nil || seen[v] {
				return ""
			}
			seen[v] = true
			switch y := v.(type) {
			case *ssa.Phi:
				for _, e := range y.Edges {
					if k := walk(e); k != "" {
						return k
					}
				}
			case *ssa.Slice:
				return walk(y.X)
			case *ssa.UnOp:
				if y.Op == token.MUL {
					if fa, ok := y.X.(*ssa.FieldAddr); ok {
						if k := namedKey(fa.X.Type()); descriptorTypes[k] && (isSliceType(y.Type()) || isMapType(y.Type())) {
							if _, fresh := fa.X.(*ssa.Alloc); !fresh {
								return k
							}
						}
					}
				}
			}
			return ""
		}
		return walk(v)
	}
	taintedCell := map[*ssa.Alloc]string{}
	for _, fn := range fns {
		for _, blk := range fn.Blocks {
			for _, in := range blk.Instrs {
				if st, ok := in.(*ssa.Store); ok {
					if a, isA := st.Addr.(*ssa.Alloc); isA {
						if k := fromDescriptor(st.Val); k != "" {
							taintedCell[a] = k
						}
					}
				}
			}
		}
	}
	closureBinding := func(fv *ssa.FreeVar) *ssa.Alloc {
		fn := fv.Parent()
		idx := -1
		for i, f := range fn.FreeVars {
			if f == fv {
				idx = i
			}
		}
		if fn.Parent() == nil || idx < 0 {
			return nil
		}
		for _, blk := range fn.Parent().Blocks {
			for _, in := range blk.Instrs {
				if mc, ok := in.(*ssa.MakeClosure); ok && mc.Fn == ssa.Value(fn) && idx < len(mc.Bindings) {
					if a, isA := mc.Bindings[idx].(*ssa.Alloc); isA {
						return a
					}
				}
			}
		}
		return nil
	}
	for _, fn := range fns {
		key := "steady:" + shortName(fn)
		// closures created by a steady-state function capture per-call cells
		perCall := fn.Parent() != nil && ss[fn.Parent()]
		var bads []string
		for _, blk := range fn.Blocks {
			for _, in := range blk.Instrs {
				var addr ssa.Value
				what := ""
				switch x := in.(type) {
				case *ssa.Store:
					addr, what = x.Addr, "store"
				case *ssa.MapUpdate:
					addr, what = x.Map, "map update"
				case *ssa.Call:
					// clear(x) / copy(x, …) write the memory of x
					if bi, isB := x.Call.Value.(*ssa.Builtin); isB && (bi.Name() == "clear" || bi.Name() == "copy") && len(x.Call.Args) > 0 {
						if k := fromDescriptor(x.Call.Args[0]); k != "" {
							bads = append(bads, fmt.Sprintf("%s of memory loaded from a %s descriptor at %s", bi.Name(), k, c.InstrPos(in)))
						}
					}
					continue
				default:
					continue
				}
				// memory reached through a slice/map that may be a descriptor's (φ-merged, or kept
				// in a captured local)
				{
					base := addr
					for i := 0; i < 6; i++ {
						if ia, ok := base.(*ssa.IndexAddr); ok {
							base = ia.X
							continue
						}
						break
					}
					if base != addr || what == "map update" {
						k := fromDescriptor(base)
						if k == "" {
							if ld, ok := base.(*ssa.UnOp); ok && ld.Op == token.MUL {
								switch cell := ld.X.(type) {
								case *ssa.Alloc:
									k = taintedCell[cell]
								case *ssa.FreeVar:
									if a := closureBinding(cell); a != nil {
										k = taintedCell[a]
									}
								}
							}
						}
						if _, isPhi := base.(*ssa.Phi); k != "" && (isPhi || true) {
							// plain loads of descriptor fields are handled (and reported) below
							if _, direct := base.(*ssa.UnOp); !direct || taintedAny(base, taintedCell, closureBinding) {
								bads = append(bads, fmt.Sprintf("%s into memory that can be a %s descriptor's (aliased into a local) at %s", what, k, c.InstrPos(in)))
								continue
							}
						}
					}
				}
				// (a) captured variable shared between calls
				root := addr
				viaDescriptor := ""
				for i := 0; i < 12; i++ {
					switch y := root.(type) {
					case *ssa.FieldAddr:
						if k := namedKey(y.X.Type()); descriptorTypes[k] {
							viaDescriptor = k
						}
						root = y.X
						continue
					case *ssa.IndexAddr:
						root = y.X
						continue
					case *ssa.UnOp:
						if y.Op == token.MUL {
							// a load: the store goes into memory reached through a pointer held there
							if _, isFV := y.X.(*ssa.FreeVar); isFV {
								root = y.X
								continue
							}
							if fa, ok := y.X.(*ssa.FieldAddr); ok {
								if k := namedKey(fa.X.Type()); descriptorTypes[k] && (isSliceType(y.Type()) || isMapType(y.Type())) {
									viaDescriptor = k
								}
								root = fa.X
								continue
							}
						}
					case *ssa.Slice:
						root = y.X
						continue
					}
					break
				}
				if fv, ok := root.(*ssa.FreeVar); ok && !perCall {
					// writing the captured cell itself, or memory of a captured slice/map/descriptor
					if addr == ssa.Value(fv) || viaDescriptor != "" || what == "map update" || isSliceType(derefType(fv.Type())) {
						bads = append(bads, fmt.Sprintf("%s through captured variable %q at %s", what, fv.Name(), c.InstrPos(in)))
						continue
					}
				}
				// (b) descriptor store
				if viaDescriptor != "" {
					if _, fresh := root.(*ssa.Alloc); fresh {
						continue
					}
					bads = append(bads, fmt.Sprintf("%s into a %s descriptor at %s", what, viaDescriptor, c.InstrPos(in)))
				}
			}
		}
		// (d) a captured slice handed to append (or to an Append* function) as the destination: when
		// it has spare capacity the bytes are written into the array every call shares
		if !perCall {
			for _, ci := range callsIn(fn) {
				cc := ci.Common()
				if len(cc.Args) == 0 {
					continue
				}
				isAppend := false
				if bi, ok := cc.Value.(*ssa.Builtin); ok && bi.Name() == "append" {
					isAppend = true
				}
				if f := staticCallee(cc); f != nil && strings.HasPrefix(f.Name(), "Append") {
					isAppend = true
				}
				if !isAppend {
					continue
				}
				dst := cc.Args[0]
				for {
					sl, ok := dst.(*ssa.Slice)
					if !ok {
						break
					}
					if sl.Max != nil {
						dst = nil // a three-index slice clamps the capacity
						break
					}
					if h, isK := constInt(sl.High); sl.High != nil && isK && h == 0 {
						// x[:0] of a captured slice is a write into it as well
					}
					dst = sl.X
				}
				if dst == nil {
					continue
				}
				var fv *ssa.FreeVar
				switch x := dst.(type) {
				case *ssa.FreeVar:
					fv = x
				case *ssa.UnOp:
					if x.Op == token.MUL {
						fv, _ = x.X.(*ssa.FreeVar)
					}
				}
				if fv != nil && isSliceType(derefType(fv.Type())) {
					bads = append(bads, fmt.Sprintf("append with the captured slice %q as its destination at %s (its spare capacity is memory shared by every call)", fv.Name(), c.InstrPos(ci)))
				}
			}
		}
		// (c) a settable reflect.Value made by the constructor (reflect.New(t).Elem(), MakeSlice,
		// MakeMap) and captured is scratch memory shared by every call: the closure must not
		// set it or hand it to code that decodes into it
		if !perCall {
			for _, fv := range fn.FreeVars {
				if !isReflectValue(fv.Type()) && !isReflectValue(derefType(fv.Type())) {
					continue
				}
				bind := freeVarBinding(fv)
				if bind == nil {
					continue
				}
				fresh := false
				for _, o := range append(origins(bind), bind) {
					if dependsOn(o, func(x ssa.Value) bool {
						call, ok := x.(*ssa.Call)
						if !ok {
							return false
						}
						switch calleeName(call.Common()) {
						case "reflect.New", "reflect.MakeSlice", "reflect.MakeMap", "reflect.MakeMapWithSize":
							return true
						}
						return false
					}) {
						fresh = true
					}
				}
				if a, isA := bind.(*ssa.Alloc); isA && !fresh {
					for _, sv := range cellStores(a) {
						if dependsOn(sv, func(x ssa.Value) bool {
							call, ok := x.(*ssa.Call)
							if !ok {
								return false
							}
							switch calleeName(call.Common()) {
							case "reflect.New", "reflect.MakeSlice", "reflect.MakeMap", "reflect.MakeMapWithSize":
								return true
							}
							return false
						}) {
							fresh = true
						}
					}
				}
				if !fresh {
					continue
				}
				// uses of the captured value (or of a load of the captured cell)
				vals := map[ssa.Value]bool{fv: true}
				for _, ref := range *fv.Referrers() {
					if ld, ok := ref.(*ssa.UnOp); ok && ld.Op == token.MUL {
						vals[ld] = true
					}
				}
				for _, blk := range fn.Blocks {
					for _, in := range blk.Instrs {
						ci, ok := in.(ssa.CallInstruction)
						if !ok {
							continue
						}
						for ai, a := range ci.Common().Args {
							if !vals[a] {
								continue
							}
							f := staticCallee(ci.Common())
							mut := true
							if f != nil && f.Pkg != nil && f.Pkg.Pkg.Path() == "reflect" {
								mut = ai == 0 && (strings.HasPrefix(f.Name(), "Set") || f.Name() == "Clear" || f.Name() == "Grow")
							}
							if mut {
								bads = append(bads, fmt.Sprintf("write into the reflect.Value %q that the constructor allocated once and every call shares (set, or handed to a decoder) at %s", fv.Name(), c.InstrPos(in)))
							}
						}
					}
				}
			}
		}
		// (e) an object the constructor made and the closure reaches through a captured pointer is
		// shared by every call as well: a store into one of its fields or elements (an error value
		// built once and completed per call) is seen by the callers that already hold the object
		if !perCall {
			for _, blk := range fn.Blocks {
				for _, in := range blk.Instrs {
					st, ok := in.(*ssa.Store)
					if !ok {
						continue
					}
					addr := st.Addr
					through := false
					for i := 0; i < 6; i++ {
						switch x := addr.(type) {
						case *ssa.FieldAddr:
							addr, through = x.X, true
							continue
						case *ssa.IndexAddr:
							addr, through = x.X, true
							continue
						}
						break
					}
					if !through {
						continue
					}
					ld, ok := addr.(*ssa.UnOp)
					if !ok || ld.Op != token.MUL {
						continue
					}
					fv, ok := ld.X.(*ssa.FreeVar)
					if !ok {
						continue
					}
					if _, isPtr := derefType(fv.Type()).Underlying().(*types.Pointer); !isPtr {
						continue
					}
					bads = append(bads, fmt.Sprintf("store into the object that the captured pointer %q refers to at %s (made once by the constructor, shared by every call and by whoever was handed it before)", fv.Name(), c.InstrPos(st)))
				}
			}
		}
		// (f) an iterator (or any other stateful reflect object) the constructor made and the closure
		// drives through a captured pointer is one iterator for every call
		if !perCall {
			for _, ci := range callsIn(fn) {
				g := staticCallee(ci.Common())
				if g == nil || g.Signature.Recv() == nil || len(ci.Common().Args) == 0 {
					continue
				}
				if !strings.HasSuffix(g.Signature.Recv().Type().String(), "reflect.MapIter") {
					continue
				}
				if ld, ok := ci.Common().Args[0].(*ssa.UnOp); ok && ld.Op == token.MUL {
					if fv, isFV := ld.X.(*ssa.FreeVar); isFV {
						bads = append(bads, fmt.Sprintf("call of %s on the reflect.MapIter that the captured variable %q points to at %s (one iterator shared by every call)", g.Name(), fv.Name(), c.InstrPos(ci)))
					}
				}
			}
		}
		// state shared by every call of a codec is also shared by the nested calls of one Marshal or
		// Unmarshal: a type that reaches itself re-enters the closure while the outer call still
		// holds the value, so the round trip breaks without any concurrency
		sprops := []string{"C09"}
		switch {
		case strings.HasPrefix(shortName(fn), "thrift."):
			sprops = []string{"C09", "C04"}
		case strings.HasPrefix(shortName(fn), "proto."):
			sprops = []string{"C09", "C03"}
		}
		if len(bads) > 0 {
			b.addP(sprops, core.Violation, key, c.FuncPos(fn), fmt.Sprintf("%s runs on every call, concurrently for the same type, but performs a %s: state shared between goroutines is written without synchronisation", shortName(fn), strings.Join(bads, "; ")))
		} else {
			b.addP(sprops, core.Discharged, key, c.FuncPos(fn), "no store through shared captured variables or into descriptors")
		}
	}
	return b.out
}

func isMapType(t types.Type) bool {
	_, ok := t.Underlying().(*types.Map)
	return ok
}

func derefType(t types.Type) types.Type {
	if p, ok := t.Underlying().(*types.Pointer); ok {
		return p.Elem()
	}
	return t
}

// freeVarBinding: the value bound to fv where its closure is created (the first creation site).
func freeVarBinding(fv *ssa.FreeVar) ssa.Value {
	fn := fv.Parent()
	idx := -1
	for i, f := range fn.FreeVars {
		if f == fv {
			idx = i
		}
	}
	if fn.Parent() == nil || idx < 0 {
		return nil
	}
	for _, blk := range fn.Parent().Blocks {
		for _, in := range blk.Instrs {
			if mc, ok := in.(*ssa.MakeClosure); ok && mc.Fn == ssa.Value(fn) && idx < len(mc.Bindings) {
				return mc.Bindings[idx]
			}
		}
	}
	return nil
}
