package rules

import (
	"fmt"
	"go/constant"
	"go/token"
	"go/types"
	"strings"

	"golang.org/x/tools/go/ssa"

	"verif/checker/core"
)

// R-LITERAL — after a successful literal-prefix test of length L the input advances by exactly L,
// and the "truncated input" threshold of the literal parsers is L.
func init() {
	Register(&Rule{
		ID:    "R-LITERAL",
		Doc:   "each literal-prefix helper has(len(b) >= L && string(b[:L]) == lit) has L == len(lit); wherever it succeeds, the constant slice bounds applied to the same buffer equal L; in the literal parsers the truncated-input threshold len(b) < K has K == L (a shorter K turns 'need more input' into a syntax error at a read boundary)",
		Props: []string{"C05", "C02", "C11", "C17"},
		Min:   map[string]int{"C05": 10, "C02": 10, "C11": 3, "C17": 3},
		Run:   runLiteral,
	})
}

func runLiteral(c *core.Ctx) []core.Obligation {
	b := newOb(c, "R-LITERAL", "C05", "C02", "C11", "C17")
	helpers := map[*ssa.Function]int64{}
	for _, fn := range c.RepoFunctions() {
		if !strings.HasPrefix(shortName(fn), "json.") || len(fn.Params) != 1 || !isByteSliceType(fn.Params[0].Type()) {
			continue
		}
		if fn.Signature.Results().Len() != 1 || !isBoolType(fn.Signature.Results().At(0).Type()) {
			continue
		}
		// string(b[:K]) == "lit"
		var lit string
		var sliceK, lenK int64 = -1, -1
		for _, blk := range fn.Blocks {
			for _, in := range blk.Instrs {
				bo, ok := in.(*ssa.BinOp)
				if !ok {
					continue
				}
				if bo.Op == token.EQL {
					for _, pair := range [][2]ssa.Value{{bo.X, bo.Y}, {bo.Y, bo.X}} {
						k, isK := pair[1].(*ssa.Const)
						cv, isCv := pair[0].(*ssa.Convert)
						if !isK || !isCv || k.Value == nil || k.Value.Kind() != constant.String {
							continue
						}
						if sl, ok := cv.X.(*ssa.Slice); ok && sl.X == ssa.Value(fn.Params[0]) && sl.High != nil {
							if hk, ok := constInt(sl.High); ok {
								lit, sliceK = constant.StringVal(k.Value), hk
							}
						}
					}
				}
				if (bo.Op == token.GEQ || bo.Op == token.LSS) && isLenOf(bo.X, fn.Params[0]) {
					if k, ok := constInt(bo.Y); ok {
						lenK = k
					}
				}
			}
		}
		if lit == "" {
			continue
		}
		key := "helper:" + shortName(fn)
		L := int64(len(lit))
		if sliceK != L || lenK != L {
			b.bad(key, c.FuncPos(fn), fmt.Sprintf("%s tests the literal %q (length %d) with slice bound %d and length test %d", shortName(fn), lit, L, sliceK, lenK))
		} else {
			b.ok(key, c.FuncPos(fn), fmt.Sprintf("len(b) >= %d && string(b[:%d]) == %q", L, L, lit))
		}
		helpers[fn] = L
	}
	if len(helpers) < 3 {
		b.und("helpers", "-", fmt.Sprintf("found %d literal-prefix helpers, expected at least 3 (null, true, false)", len(helpers)))
	}

	for _, fn := range c.RepoFunctions() {
		if !strings.HasPrefix(shortName(fn), "json.") || fn.Synthetic != "" {
			continue
		}
		type use struct {
			call *ssa.Call
			L    int64
		}
		var uses []use
		for _, ci := range callsIn(fn) {
			if call, ok := ci.(*ssa.Call); ok {
				if L, isH := helpers[staticCallee(call.Common())]; isH {
					uses = append(uses, use{call, L})
				}
			}
		}
		if len(uses) == 0 {
			continue
		}
		n := 0
		for _, u := range uses {
			x := u.call.Common().Args[0]
			for _, blk := range fn.Blocks {
				dom := false
				for _, e := range dominatingEdges(blk) {
					if e.ifi.Cond == ssa.Value(u.call) && e.succ == 0 {
						dom = true
					}
				}
				if !dom {
					continue
				}
				for _, in := range blk.Instrs {
					sl, ok := in.(*ssa.Slice)
					if !ok || sl.X != x {
						continue
					}
					for _, bound := range []ssa.Value{sl.Low, sl.High} {
						if bound == nil {
							continue
						}
						k, ok := constInt(bound)
						if !ok {
							continue
						}
						n++
						key := fmt.Sprintf("advance:%s:%s#%d", shortName(fn), staticCallee(u.call.Common()).Name(), n)
						if k == u.L {
							b.ok(key, c.InstrPos(sl), fmt.Sprintf("advances by %d after matching a %d-byte literal", k, u.L))
						} else {
							b.bad(key, c.InstrPos(sl), fmt.Sprintf("%s matched a %d-byte literal with %s but slices the input at %d", shortName(fn), u.L, staticCallee(u.call.Common()).Name(), k))
						}
					}
				}
			}
		}
		// literal parsers: one helper, and a truncation threshold
		if len(uses) == 1 {
			x := uses[0].call.Common().Args[0]
			for _, blk := range fn.Blocks {
				if m := len(blk.Instrs); m > 0 {
					if ifi, ok := blk.Instrs[m-1].(*ssa.If); ok {
						if bo, ok := ifi.Cond.(*ssa.BinOp); ok && bo.Op == token.LSS && isLenOf(bo.X, x) {
							// only where the short branch reports "unexpected end of input"
							eof := false
							for _, in := range blk.Succs[0].Instrs {
								if call, ok := in.(*ssa.Call); ok {
									if f := staticCallee(call.Common()); f != nil && f.Name() == "unexpectedEOF" {
										eof = true
									}
								}
							}
							if k, ok := constInt(bo.Y); ok && eof {
								key := "truncation-threshold:" + shortName(fn)
								if k == uses[0].L {
									b.ok(key, c.InstrPos(ifi), fmt.Sprintf("input shorter than the %d-byte literal is reported as truncated", k))
								} else {
									b.bad(key, c.InstrPos(ifi), fmt.Sprintf("%s reports truncated input only below %d bytes although its literal has %d: a %d-byte prefix at the end of a read is a syntax error instead of 'need more input', so a Decoder fails on a literal split by a read boundary", shortName(fn), k, uses[0].L, uses[0].L-1))
								}
							}
						}
					}
				}
			}
		}
	}
	return b.out
}

func isBoolType(t types.Type) bool {
	b, ok := t.Underlying().(*types.Basic)
	return ok && b.Kind() == types.Bool
}
