package rules

import (
	"fmt"
	"go/token"
	"go/types"
	"sort"
	"strings"

	"golang.org/x/tools/go/ssa"

	"verif/checker/core"
)

// R-SIZEENC — the two passes of proto encoding agree: for every codec, the size function and the
// encoder (paired by the codec value they are stored into) compute every length prefix from the
// same atoms (LP), emit under the same guards (GUARD), return a count made of what was emitted
// (RET), and emit a payload that depends on the value (PAYLOAD).
func init() {
	Register(&Rule{
		ID:    "R-SIZEENC",
		Doc:   "per proto codec: every length prefix written by encode is sized by size from the same atom set (LP); scalar size/encode guards are the same conditions (GUARD); success counts never derive from len(dst) (RET); emitted payload depends on *p on every path (PAYLOAD)",
		Props: []string{"C03", "C12", "C16"},
		Min:   map[string]int{"C03": 30, "C12": 10, "C16": 30},
		Run:   runSizeEnc,
	})
}

// ---- atoms ---------------------------------------------------------------------------------

type atomizer struct {
	fn    *ssa.Function
	dataP *ssa.Parameter // the unsafe.Pointer parameter
	seen  map[ssa.Value]bool
}

func dataParam(fn *ssa.Function) *ssa.Parameter {
	for _, p := range fn.Params {
		if b, ok := p.Type().Underlying().(*types.Basic); ok && b.Kind() == types.UnsafePointer {
			return p
		}
	}
	return nil
}

func bufParam(fn *ssa.Function) *ssa.Parameter {
	for _, p := range fn.Params {
		if s, ok := p.Type().Underlying().(*types.Slice); ok {
			if b, ok := s.Elem().Underlying().(*types.Basic); ok && b.Kind() == types.Uint8 {
				return p
			}
		}
	}
	return nil
}

// localStored returns the values stored into a local Alloc (nil if v is not a load of one).
func localStored(v ssa.Value) ([]ssa.Value, bool) {
	u, ok := v.(*ssa.UnOp)
	if !ok || u.Op != token.MUL {
		return nil, false
	}
	a, ok := u.X.(*ssa.Alloc)
	if !ok {
		return nil, false
	}
	var vals []ssa.Value
	for _, r := range *a.Referrers() {
		switch x := r.(type) {
		case *ssa.Store:
			if x.Addr == a {
				vals = append(vals, x.Val)
			}
		case *ssa.UnOp:
		default:
			_ = x
		}
	}
	return vals, true
}

// derivesFromParam: v is computed from parameter p by address arithmetic / conversions / field
// addressing / φ (not through a memory load).
func derivesFromValue(v ssa.Value, root ssa.Value) bool {
	seen := map[ssa.Value]bool{}
	var walk func(ssa.Value) bool
	walk = func(v ssa.Value) bool {
		if v == root {
			return true
		}
		if v == nil || seen[v] {
			return false
		}
		seen[v] = true
		switch x := v.(type) {
		case *ssa.Convert:
			return walk(x.X)
		case *ssa.ChangeType:
			return walk(x.X)
		case *ssa.FieldAddr:
			return walk(x.X)
		case *ssa.IndexAddr:
			return walk(x.X)
		case *ssa.BinOp:
			return walk(x.X) || walk(x.Y)
		case *ssa.Phi:
			for _, e := range x.Edges {
				if walk(e) {
					return true
				}
			}
		case *ssa.Slice:
			return walk(x.X)
		case *ssa.UnOp:
			if x.Op == token.MUL {
				return false
			}
			return walk(x.X)
		case *ssa.Call:
			// pointer arithmetic helpers: (*structField).pointer(p), Slice.Index, makeBytes(p, n) ...
			for _, a := range x.Common().Args {
				if _, isPtr := a.Type().Underlying().(*types.Basic); isPtr || isPointerLike(a.Type()) {
					if walk(a) {
						return true
					}
				}
			}
		}
		return false
	}
	return walk(v)
}

func isPointerLike(t types.Type) bool {
	switch u := t.Underlying().(type) {
	case *types.Pointer:
		return true
	case *types.Basic:
		return u.Kind() == types.UnsafePointer
	}
	return false
}

// fieldPath renders the chain of field selections that leads to a loaded function value:
// ".keyCodec.size" for `f.keyCodec.size`.
func fieldPath(v ssa.Value) string {
	path := ""
	for i := 0; i < 8; i++ {
		switch x := v.(type) {
		case *ssa.UnOp:
			if x.Op != token.MUL {
				return path
			}
			v = x.X
		case *ssa.FieldAddr:
			st := x.X.Type().Underlying().(*types.Pointer).Elem().Underlying().(*types.Struct)
			path = "." + st.Field(x.Field).Name() + path
			v = x.X
		case *ssa.Field:
			st := x.X.Type().Underlying().(*types.Struct)
			path = "." + st.Field(x.Field).Name() + path
			v = x.X
		default:
			return path
		}
	}
	return path
}

func (a *atomizer) atoms(v ssa.Value) map[string]bool {
	out := map[string]bool{}
	a.seen = map[ssa.Value]bool{}
	a.walk(v, out)
	return out
}

func atomSetString(m map[string]bool) string { return setString(m) }

func (a *atomizer) walk(v ssa.Value, out map[string]bool) {
	if v == nil || a.seen[v] {
		return
	}
	a.seen[v] = true
	switch x := v.(type) {
	case *ssa.Const:
		out["K"] = true
	case *ssa.Phi:
		for _, e := range x.Edges {
			a.walk(e, out)
		}
	case *ssa.Convert:
		a.walk(x.X, out)
	case *ssa.ChangeType:
		a.walk(x.X, out)
	case *ssa.BinOp:
		a.walk(x.X, out)
		a.walk(x.Y, out)
	case *ssa.FreeVar:
		out["K"] = true
	case *ssa.Parameter:
		out["PARAM("+x.Name()+")"] = true
	case *ssa.UnOp:
		if x.Op != token.MUL {
			a.walk(x.X, out)
			return
		}
		if vals, ok := localStored(x); ok {
			for _, s := range vals {
				a.walk(s, out)
			}
			return
		}
		if a.dataP != nil && derivesFromValue(x.X, a.dataP) {
			out["DATA"] = true
			return
		}
		// loads of captured variables and of descriptor fields are construction-time constants
		out["K"] = true
	case *ssa.Extract:
		a.walk(x.Tuple, out)
	case *ssa.Call:
		cc := x.Common()
		if cc.IsInvoke() {
			if cc.Method.Name() == "Size" {
				out["USERSIZE"] = true
			} else {
				out["INVOKE("+cc.Method.Name()+")"] = true
			}
			return
		}
		if b, ok := cc.Value.(*ssa.Builtin); ok {
			switch b.Name() {
			case "len":
				sub := map[string]bool{}
				(&atomizer{fn: a.fn, dataP: a.dataP, seen: map[ssa.Value]bool{}}).walk(cc.Args[0], sub)
				if sub["DATA"] {
					out["LEN(data)"] = true
				} else {
					out["K"] = true
				}
			case "copy":
				out["COPIED"] = true
			default:
				out["BUILTIN("+b.Name()+")"] = true
			}
			return
		}
		if f := staticCallee(cc); f != nil {
			name := strings.TrimPrefix(qualName(f), protoPath)
			switch name {
			case "sizeOfVarint", "sizeOfVarintZigZag":
				sub := (&atomizer{fn: a.fn, dataP: a.dataP}).atoms(cc.Args[0])
				out["VARINT"+atomSetString(sub)] = true
			case "sizeOfVarlen":
				sub := (&atomizer{fn: a.fn, dataP: a.dataP}).atoms(cc.Args[0])
				out["VARINT"+atomSetString(sub)] = true
				for k := range sub {
					out[k] = true
				}
			case "sizeOfTag":
				out["K"] = true
			default:
				// a helper: its arguments carry the dependence
				out["F("+name+")"] = true
				for _, arg := range cc.Args {
					a.walk(arg, out)
				}
			}
			return
		}
		// dynamic call through a function value stored in a descriptor
		p := fieldPath(cc.Value)
		if strings.HasSuffix(p, ".size") {
			out["SIZE("+strings.TrimSuffix(p, ".size")+")"] = true
		} else {
			out["DYN("+p+")"] = true
		}
	case *ssa.Slice, *ssa.IndexAddr, *ssa.FieldAddr, *ssa.Alloc, *ssa.MakeSlice:
		out["K"] = true
	default:
		out["?"+describeValue(v)] = true
	}
}

// ---- signatures of guard conditions -----------------------------------------------------------

func paramSig(p *ssa.Parameter) string {
	switch u := p.Type().Underlying().(type) {
	case *types.Basic:
		if u.Kind() == types.UnsafePointer {
			return "p"
		}
	case *types.Slice:
		return "b"
	}
	if n, ok := p.Type().(*types.Named); ok {
		return n.Obj().Name()
	}
	return p.Name()
}

func valueSig(v ssa.Value, depth int) string {
	if depth > 12 {
		return "…"
	}
	switch x := v.(type) {
	case *ssa.Parameter:
		return paramSig(x)
	case *ssa.Const:
		if x.Value == nil {
			return "nil"
		}
		return x.Value.ExactString()
	case *ssa.FreeVar:
		return "captured"
	case *ssa.UnOp:
		if x.Op == token.MUL {
			if _, ok := x.X.(*ssa.FreeVar); ok {
				return "captured"
			}
			if vals, ok := localStored(x); ok && len(vals) == 1 {
				return valueSig(vals[0], depth+1)
			}
			return "*" + valueSig(x.X, depth+1)
		}
		return x.Op.String() + valueSig(x.X, depth+1)
	case *ssa.Convert:
		return "(" + types.TypeString(x.Type(), func(p *types.Package) string { return p.Name() }) + ")" + valueSig(x.X, depth+1)
	case *ssa.ChangeType:
		return valueSig(x.X, depth+1)
	case *ssa.BinOp:
		return "(" + valueSig(x.X, depth+1) + x.Op.String() + valueSig(x.Y, depth+1) + ")"
	case *ssa.Call:
		cc := x.Common()
		name := calleeName(cc)
		if name == "" {
			name = "dyn" + fieldPath(cc.Value)
		}
		name = strings.TrimPrefix(name, protoPath)
		var args []string
		for _, a := range cc.Args {
			args = append(args, valueSig(a, depth+1))
		}
		if cc.IsInvoke() {
			return name + "(" + valueSig(cc.Value, depth+1) + ")"
		}
		return name + "(" + strings.Join(args, ",") + ")"
	case *ssa.Extract:
		return fmt.Sprintf("%s#%d", valueSig(x.Tuple, depth+1), x.Index)
	case *ssa.Phi:
		var es []string
		for _, e := range x.Edges {
			es = append(es, valueSig(e, depth+3))
		}
		sort.Strings(es)
		return "φ(" + strings.Join(es, "|") + ")"
	case *ssa.TypeAssert:
		return "assert(" + valueSig(x.X, depth+1) + ")"
	case *ssa.FieldAddr, *ssa.Field, *ssa.IndexAddr:
		return "&" + fieldPath(v)
	}
	return strings.TrimPrefix(fmt.Sprintf("%T", v), "*ssa.")
}

func hasBackEdge(fn *ssa.Function) bool {
	for _, b := range fn.Blocks {
		for _, s := range b.Succs {
			if s.Dominates(b) {
				return true
			}
		}
	}
	return false
}

// guardConds returns the signatures of the If conditions of fn that do not depend on the
// destination buffer.
func guardConds(fn *ssa.Function) map[string]bool {
	out := map[string]bool{}
	bp := bufParam(fn)
	for _, blk := range fn.Blocks {
		if len(blk.Instrs) == 0 {
			continue
		}
		ifi, ok := blk.Instrs[len(blk.Instrs)-1].(*ssa.If)
		if !ok {
			continue
		}
		if bp != nil && dependsOn(ifi.Cond, func(v ssa.Value) bool { return v == bp }) {
			continue
		}
		out[valueSig(ifi.Cond, 0)] = true
	}
	return out
}

// definitelyNonNilError: a load of a package-level error variable, or a freshly built error.
func definitelyNonNilError(v ssa.Value) bool {
	switch x := v.(type) {
	case *ssa.UnOp:
		if x.Op == token.MUL {
			_, ok := x.X.(*ssa.Global)
			return ok
		}
	case *ssa.MakeInterface:
		return true
	case *ssa.Call:
		n := calleeName(x.Common())
		return n == "fmt.Errorf" || n == "errors.New" || strings.HasSuffix(n, ".fieldError")
	case *ssa.Phi:
		for _, e := range x.Edges {
			if !definitelyNonNilError(e) {
				return false
			}
		}
		return true
	}
	return false
}

func runSizeEnc(c *core.Ctx) []core.Obligation {
	b := newOb(c, "R-SIZEENC", "C03", "C12", "C16")
	for _, pc := range protoCodecs(c) {
		if len(pc.size) != 1 || len(pc.encode) != 1 {
			b.und("pair:"+pc.name, c.PosOf(pc.pos), fmt.Sprintf("cannot pair size and encode of this codec (%d size, %d encode functions resolved)", len(pc.size), len(pc.encode)))
			continue
		}
		sz, enc := pc.size[0], pc.encode[0]
		if sz.Blocks == nil || enc.Blocks == nil {
			b.und("pair:"+pc.name, c.PosOf(pc.pos), "size or encode has no body")
			continue
		}

		// ---- LP clause
		encA := &atomizer{fn: enc, dataP: dataParam(enc)}
		szA := &atomizer{fn: sz, dataP: dataParam(sz)}
		type lp struct {
			set string
			pos string
		}
		var encLP, szLP []lp
		for _, ci := range callsIn(enc) {
			name := strings.TrimPrefix(calleeName(ci.Common()), protoPath)
			if name == "encodeVarint" {
				at := encA.atoms(ci.Common().Args[1])
				if at["DATA"] {
					continue // payload, not a length
				}
				encLP = append(encLP, lp{atomSetString(at), c.InstrPos(ci)})
			}
		}
		for _, ci := range callsIn(sz) {
			name := strings.TrimPrefix(calleeName(ci.Common()), protoPath)
			if name == "sizeOfVarint" || name == "sizeOfVarlen" {
				at := szA.atoms(ci.Common().Args[0])
				if at["DATA"] {
					continue
				}
				szLP = append(szLP, lp{atomSetString(at), c.InstrPos(ci)})
			}
		}
		// byte-array/bytes encoders delegate to another codec's encoder: compare through it
		has := func(list []lp, s string) bool {
			for _, l := range list {
				if l.set == s {
					return true
				}
			}
			return false
		}
		lpBad := false
		for _, l := range encLP {
			if !has(szLP, l.set) {
				if delegatesEncode(enc) && len(szLP) == 0 {
					continue
				}
				var have []string
				for _, s := range szLP {
					have = append(have, s.set)
				}
				b.bad("lp:"+pc.name+":"+l.set, l.pos, fmt.Sprintf("%s writes a length prefix computed from %s, but %s sizes prefixes only from %v: the buffer window and the emitted bytes disagree when the two sums fall on different sides of a varint boundary", shortName(enc), l.set, shortName(sz), have))
				lpBad = true
			}
		}
		for _, l := range szLP {
			if !has(encLP, l.set) {
				if delegatesEncode(enc) {
					continue
				}
				var have []string
				for _, s := range encLP {
					have = append(have, s.set)
				}
				b.bad("lp-size:"+pc.name+":"+l.set, l.pos, fmt.Sprintf("%s counts a length prefix over %s that %s never writes (it writes %v)", shortName(sz), l.set, shortName(enc), have))
				lpBad = true
			}
		}
		if !lpBad {
			b.ok("lp:"+pc.name, c.FuncPos(enc), fmt.Sprintf("%d length prefix(es) of %s are sized from the same atoms by %s", len(encLP), shortName(enc), shortName(sz)))
		}

		// ---- RET clause
		retBad := false
		bp := bufParam(enc)
		for _, r := range returnsOf(enc) {
			if len(r.Results) != 2 || definitelyNonNilError(r.Results[1]) {
				continue
			}
			for _, leaf := range countLeaves(r.Results[0]) {
				if call, ok := leaf.(*ssa.Call); ok {
					if bi, ok := call.Common().Value.(*ssa.Builtin); ok && bi.Name() == "len" && call.Common().Args[0] == bp {
						b.bad("ret:"+pc.name, c.InstrPos(r), fmt.Sprintf("%s reports len(destination) as the number of bytes written on a path that can succeed; MarshalTo into a larger buffer returns the buffer length, not the encoded size", shortName(enc)))
						retBad = true
					}
				}
			}
		}
		if !retBad {
			b.ok("ret:"+pc.name, c.FuncPos(enc), "success counts are built from emitted counts and sizes, never from len(dst)")
		}

		// ---- GUARD clause (loop-free pairs)
		if !hasBackEdge(sz) && !hasBackEdge(enc) {
			gs, ge := guardConds(sz), guardConds(enc)
			// the encoder may add error tests on results of emit calls: those depend on b and were dropped
			var onlyS, onlyE []string
			for k := range gs {
				if !ge[k] {
					onlyS = append(onlyS, k)
				}
			}
			for k := range ge {
				if !gs[k] {
					onlyE = append(onlyE, k)
				}
			}
			sort.Strings(onlyS)
			sort.Strings(onlyE)
			if len(onlyS)+len(onlyE) > 0 {
				b.bad("guard:"+pc.name, c.FuncPos(enc), fmt.Sprintf("emission guards differ: only in %s: %v; only in %s: %v", shortName(sz), onlyS, shortName(enc), onlyE))
			} else {
				b.ok("guard:"+pc.name, c.FuncPos(enc), fmt.Sprintf("size and encode test the same %d condition(s): %s", len(gs), setString(gs)))
			}
		}

		// ---- FLAGFLOW clause: the flags handed to child codecs evolve under the same conditions in
		// both passes (e.g. wantzero is spent only by a field that was actually emitted)
		fs, fe := flagFlow(sz), flagFlow(enc)
		if len(fs)+len(fe) > 0 {
			var onlyS, onlyE []string
			for k := range fs {
				if fe[k] != fs[k] {
					onlyS = append(onlyS, fmt.Sprintf("%s ×%d", k, fs[k]))
				}
			}
			for k := range fe {
				if fe[k] != fs[k] {
					onlyE = append(onlyE, fmt.Sprintf("%s ×%d", k, fe[k]))
				}
			}
			sort.Strings(onlyS)
			sort.Strings(onlyE)
			if len(onlyS)+len(onlyE) > 0 {
				b.bad("flagflow:"+pc.name, c.FuncPos(sz), fmt.Sprintf("the flags passed to child codecs are updated under different conditions in the two passes: %s has %v, %s has %v; size and encode then disagree on which zero-valued field is emitted", shortName(sz), onlyS, shortName(enc), onlyE))
			} else {
				b.ok("flagflow:"+pc.name, c.FuncPos(sz), fmt.Sprintf("%d flag update(s) under identical conditions in size and encode", len(fs)))
			}
		}

		// ---- PAYLOAD clause (scalars: wire varint / fixed)
		if pc.wireVal == 0 || pc.wireVal == 1 || pc.wireVal == 5 {
			payloadClause(c, b, pc, enc)
		}
	}
	return b.out
}

// delegatesEncode: the encoder hands the whole job to another static encode function.
func delegatesEncode(enc *ssa.Function) bool {
	for _, ci := range callsIn(enc) {
		n := strings.TrimPrefix(calleeName(ci.Common()), protoPath)
		if n == "encodeBytes" || n == "encodeString" {
			return true
		}
	}
	return false
}

func payloadClause(c *core.Ctx, b *ob, pc *protoCodec, enc *ssa.Function) {
	dp := dataParam(enc)
	bp := bufParam(enc)
	if dp == nil || bp == nil {
		return
	}
	isData := func(v ssa.Value) bool {
		u, ok := v.(*ssa.UnOp)
		return ok && u.Op == token.MUL && derivesFromValue(u.X, dp)
	}
	// What a path knows about the value when it reaches a block: the last edge on it that tested the
	// data (both branch edges of an If whose condition depends on *p), the nil side of a `p == nil`
	// test (no value: only the zero value can be meant), or nothing. A constant payload K is sound
	// iff every path arrives through the same data edge, or every path arrives through edges that
	// imply "the value is zero" and K is the zero constant.
	type label struct {
		blk  *ssa.BasicBlock
		succ int
		zero bool // the edge implies value == zero value (or p == nil)
		none bool
	}
	edgeLabel := func(x *ssa.BasicBlock, i int) (label, bool) {
		if len(x.Instrs) == 0 {
			return label{}, false
		}
		ifi, ok := x.Instrs[len(x.Instrs)-1].(*ssa.If)
		if !ok {
			return label{}, false
		}
		if dependsOn(ifi.Cond, isData) {
			zero := false
			switch cnd := ifi.Cond.(type) {
			case *ssa.UnOp:
				zero = isData(cnd) && i == 1 // `if *p` : false edge
			case *ssa.BinOp:
				isZero := func(v ssa.Value) bool {
					k, ok := v.(*ssa.Const)
					return ok && (k.Value == nil || k.Value.String() == "0" || k.Value.String() == "false" || k.Value.String() == `""`)
				}
				if (isData(stripConv(cnd.X)) && isZero(cnd.Y)) || (isData(stripConv(cnd.Y)) && isZero(cnd.X)) {
					zero = (cnd.Op == token.NEQ && i == 1) || (cnd.Op == token.EQL && i == 0)
				}
			}
			return label{blk: x, succ: i, zero: zero}, true
		}
		if bo, ok := ifi.Cond.(*ssa.BinOp); ok && (bo.X == ssa.Value(dp) && isNilConst(bo.Y) || bo.Y == ssa.Value(dp) && isNilConst(bo.X)) {
			if (bo.Op == token.EQL && i == 0) || (bo.Op == token.NEQ && i == 1) {
				return label{blk: x, succ: i, zero: true}, true
			}
		}
		return label{}, false
	}
	labels := map[*ssa.BasicBlock]map[label]bool{enc.Blocks[0]: {label{none: true}: true}}
	work := []*ssa.BasicBlock{enc.Blocks[0]}
	for len(work) > 0 {
		x := work[0]
		work = work[1:]
		for i, sx := range x.Succs {
			var out map[label]bool
			if l, ok := edgeLabel(x, i); ok {
				out = map[label]bool{l: true}
			} else {
				out = labels[x]
			}
			if labels[sx] == nil {
				labels[sx] = map[label]bool{}
			}
			changed := false
			for l := range out {
				if !labels[sx][l] {
					labels[sx][l] = true
					changed = true
				}
			}
			if changed {
				work = append(work, sx)
			}
		}
	}
	constSound := func(blk *ssa.BasicBlock, k *ssa.Const) bool {
		ls := labels[blk]
		if len(ls) == 0 {
			return true // unreachable
		}
		allZero := true
		for l := range ls {
			if l.none {
				return false
			}
			if !l.zero {
				allZero = false
			}
		}
		isZeroK := k.Value == nil || k.Value.String() == "0" || k.Value.String() == "false"
		if len(ls) == 1 {
			// one data edge decides the constant; on an edge that says "the value is zero" the
			// constant is the zero one, on the true edge of a bool test it is not
			for l := range ls {
				if l.zero {
					return isZeroK
				}
				if ifi, ok := l.blk.Instrs[len(l.blk.Instrs)-1].(*ssa.If); ok && l.succ == 0 {
					if u, isU := ifi.Cond.(*ssa.UnOp); isU && isData(u) {
						return !isZeroK
					}
				}
			}
			return true
		}
		return allZero && isZeroK
	}
	n := 0
	check := func(in ssa.Instruction, payload ssa.Value, what string) {
		n++
		key := "payload:" + pc.name
		if dependsOn(payload, isData) {
			return
		}
		if k, isConst := payload.(*ssa.Const); isConst && constSound(in.Block(), k) {
			return
		}
		b.bad(key, c.InstrPos(in), fmt.Sprintf("%s emits %s %s on a path where the value was not tested: the payload does not depend on *p (reachable through the wantzero branch)", shortName(enc), what, describeValue(payload)))
	}
	before := len(b.out)
	for _, blk := range enc.Blocks {
		for _, in := range blk.Instrs {
			switch x := in.(type) {
			case *ssa.Store:
				if ia, ok := x.Addr.(*ssa.IndexAddr); ok && derivesFromValue(ia.X, bp) {
					check(x, x.Val, "the stored byte")
				}
			case *ssa.Call:
				name := strings.TrimPrefix(calleeName(x.Common()), protoPath)
				switch name {
				case "encodeVarint", "encodeVarintZigZag", "encodeLE32", "encodeLE64":
					check(x, x.Common().Args[1], "the argument of "+name)
				}
			}
		}
	}
	if len(b.out) == before {
		if n == 0 {
			b.und("payload:"+pc.name, c.FuncPos(enc), "no emission found in a scalar encoder")
		} else {
			b.ok("payload:"+pc.name, c.FuncPos(enc), fmt.Sprintf("%d emission(s), each data-dependent on *p or fixed by a test of *p", n))
		}
	}
}

// flagFlow: each update of the flags value (flags.with/without(const)) with the canonical set of
// branch conditions dominating it. Child results are abstracted: the size returned by a child
// size function and the count returned by the matching child encode function are the same atom.
func flagFlow(fn *ssa.Function) map[string]int {
	out := map[string]int{}
	canon := func(v ssa.Value) string {
		s := valueSig(v, 0)
		// dyn.codec.size(...) and dyn.codec.encode(...)#0 are both "CHILD"
		for _, suf := range []string{".size(", ".encode("} {
			for {
				i := strings.Index(s, "dyn")
				if i < 0 {
					break
				}
				j := strings.Index(s[i:], suf)
				if j < 0 {
					break
				}
				// cut the call expression: up to the matching parenthesis
				k := i + j + len(suf)
				depth := 1
				for k < len(s) && depth > 0 {
					switch s[k] {
					case '(':
						depth++
					case ')':
						depth--
					}
					k++
				}
				rest := s[k:]
				rest = strings.TrimPrefix(rest, "#0")
				s = s[:i] + "CHILD" + rest
			}
		}
		return s
	}
	for _, blk := range fn.Blocks {
		for _, in := range blk.Instrs {
			call, ok := in.(*ssa.Call)
			if !ok {
				continue
			}
			n := calleeName(call.Common())
			switch {
			case strings.HasSuffix(n, "proto.flags).without"):
				n = "without"
			case strings.HasSuffix(n, "proto.flags).with"):
				n = "with"
			default:
				continue
			}
			if len(call.Common().Args) != 2 {
				continue
			}
			k, isK := constInt(call.Common().Args[1])
			if !isK {
				continue
			}
			// only updates that are carried to later iterations / children: result flows into a φ or a later call
			carried := false
			for _, ref := range *call.Referrers() {
				if _, ok := ref.(*ssa.Phi); ok {
					carried = true
				}
			}
			if !carried {
				continue
			}
			var conds []string
			for _, e := range dominatingEdges(blk) {
				// loop conditions are the same in both passes by construction; keep data conditions only
				if isLoopCond(e.ifi.Cond) {
					continue
				}
				// the encoder additionally tests buffer space and emit errors: not part of the flag flow
				if bp := bufParam(fn); bp != nil && dependsOn(e.ifi.Cond, func(v ssa.Value) bool {
					if call, ok := v.(*ssa.Call); ok {
						if bi, ok := call.Common().Value.(*ssa.Builtin); ok && bi.Name() == "len" && call.Common().Args[0] == ssa.Value(bp) {
							return true
						}
					}
					return false
				}) {
					continue
				}
				if bo, ok := e.ifi.Cond.(*ssa.BinOp); ok && (isErrorType(bo.X.Type()) || isErrorType(bo.Y.Type())) {
					continue
				}
				cs := canon(e.ifi.Cond)
				if e.succ == 1 {
					cs = "!" + cs
				}
				conds = append(conds, cs)
			}
			sort.Strings(conds)
			out[fmt.Sprintf("%s(%d) under {%s}", n, k, strings.Join(conds, " && "))]++
		}
	}
	return out
}

// isLoopCond: the condition compares a range/loop index (a φ or φ+1) with a bound.
func isLoopCond(cond ssa.Value) bool {
	bo, ok := cond.(*ssa.BinOp)
	if !ok {
		return false
	}
	isIdx := func(v ssa.Value) bool {
		if add, ok := v.(*ssa.BinOp); ok && add.Op == token.ADD {
			v = add.X
		}
		phi, ok := v.(*ssa.Phi)
		return ok && (strings.Contains(phi.Comment, "range") || phi.Comment == "i")
	}
	return isIdx(bo.X) || isIdx(bo.Y)
}
