// Package rules holds the repository-specific analyses (R-…) of vcheck.
package rules

import (
	"sort"
	"strings"

	"verif/checker/core"
)

// Rule is one analysis. Run returns every obligation it decided; each obligation names the
// properties it is evidence for. Min is the minimum number of obligations (per property) that
// the rule must produce on any tree: fewer means the rule matched nothing it was written for,
// which is a failed check, not a pass.
type Rule struct {
	ID    string
	Doc   string // one line: the rule applied (goes into the evidence)
	Props []string
	Min   map[string]int // property -> minimum instance count
	Run   func(c *core.Ctx) []core.Obligation
}

var registry []*Rule

// alsoDecides: obligations that are evidence for one more property than the rule's source assigns
// them — each line was found by a seeded change that broke the property on the right and was
// reported, by the obligation on the left, under another property only. The breakage the obligation
// describes is the same; the line says why it is also a breakage of that property.
var alsoDecides = []struct {
	rule, keyPrefix string
	props           []string
	why             string
}{
	{"R-ALIAS", "unquote:fresh-flag", []string{"C02"}, "a string decoded with the hints of another buffer is unescaped wrongly: the decoded value differs"},
	{"R-TAGUSE", "taguse:consulted:repeated", []string{"C07"}, "elements written with another wire type than the decoder expects are a type-mismatched input to it"},
	{"R-COW", "cache:proto.", []string{"C07"}, "a concurrent map write in the codec cache is a fatal fault of Unmarshal"},
	{"R-COW", "published-map-updated:proto.", []string{"C07"}, "as above"},
	{"R-SMALL", "thrift-reset:", []string{"C08"}, "a Decoder that keeps the previous protocol's features misreads well-formed input of the new one"},
	{"R-LOOPSTATE", "loopstate:thrift.readStruct", []string{"C08"}, "a stale delta base makes the skip path attribute the wrong ids: unknown fields are no longer skipped"},
	{"R-SMALL", "delta-base:reader", []string{"C08"}, "as above"},
	{"R-TOKEN", "token:stack-acquire-empty", []string{"C09"}, "a pooled stack that arrives with content makes a Tokenizer depend on who used the pool before"},
	{"R-INPUTRO", "input:json.", []string{"C11", "C14"}, "input written in place is the Decoder's read buffer: the values that follow in the stream, and a second parse under other flags, see other bytes"},
	{"R-BUFWRITE", "proto.encodeTag", []string{"C12"}, "a tag written wrongly is not the encoding of the message"},
	{"R-SMALL", "raw-varint-byte:proto.encodeTag", []string{"C12"}, "as above"},
	{"R-SMALL", "proto:wantzero-dropped-on-emission", []string{"C12"}, "a zero element dropped or kept at the wrong place changes what the reference implementation decodes"},
	{"R-THRIFTLAYOUT", "binary:strict-detection:reader", []string{"C08"}, "a header byte taken for the wrong framing makes ReadMessage read a negative or huge name length"},
	{"R-REMAINDER", "remainder:json.(*Tokenizer).", []string{"C17"}, "what the Tokenizer's accessors drop or mis-parse is the decoded value they report"},
	{"R-POOL", "pool:scrub-before-put@json.(encoder)", []string{"C15"}, "stale entries of the pooled scratch are written after the caller's prefix in place of the value"},
}

func Register(r *Rule) {
	for _, ad := range alsoDecides {
		if ad.rule != r.ID {
			continue
		}
		for _, p := range ad.props {
			has := false
			for _, q := range r.Props {
				if q == p {
					has = true
				}
			}
			if !has {
				r.Props = append(r.Props, p)
			}
		}
	}
	run := r.Run
	id := r.ID
	r.Run = func(c *core.Ctx) []core.Obligation {
		out := run(c)
		for i := range out {
			for _, ad := range alsoDecides {
				if ad.rule != id || !strings.HasPrefix(out[i].Key, ad.keyPrefix) {
					continue
				}
				props := append([]string{}, out[i].Props...)
				for _, p := range ad.props {
					has := false
					for _, q := range props {
						if q == p {
							has = true
						}
					}
					if !has {
						props = append(props, p)
					}
				}
				out[i].Props = props
			}
		}
		return out
	}
	registry = append(registry, r)
}

func All() []*Rule {
	out := append([]*Rule(nil), registry...)
	sort.Slice(out, func(i, j int) bool { return out[i].ID < out[j].ID })
	return out
}

func ForProperty(p string) []*Rule {
	var out []*Rule
	for _, r := range All() {
		for _, q := range r.Props {
			if q == p {
				out = append(out, r)
				break
			}
		}
	}
	return out
}

func ByID(id string) *Rule {
	for _, r := range registry {
		if r.ID == id {
			return r
		}
	}
	return nil
}

// helper to build obligations tersely
type ob struct {
	rule  string
	props []string
	c     *core.Ctx
	out   []core.Obligation
}

func newOb(c *core.Ctx, rule string, props ...string) *ob {
	return &ob{rule: rule, props: props, c: c}
}

func (b *ob) add(verdict, key, pos, msg string, path ...string) {
	b.out = append(b.out, core.Obligation{Rule: b.rule, Key: key, Verdict: verdict, Pos: pos, Msg: msg, Path: path, Props: b.props})
}
func (b *ob) addP(props []string, verdict, key, pos, msg string, path ...string) {
	b.out = append(b.out, core.Obligation{Rule: b.rule, Key: key, Verdict: verdict, Pos: pos, Msg: msg, Path: path, Props: props})
}
func (b *ob) ok(key, pos, msg string)                  { b.add(core.Discharged, key, pos, msg) }
func (b *ob) bad(key, pos, msg string, path ...string) { b.add(core.Violation, key, pos, msg, path...) }
func (b *ob) und(key, pos, msg string)                 { b.add(core.Undecided, key, pos, msg) }
func (b *ob) info(key, pos, msg string)                { b.add(core.Info, key, pos, msg) }
