// Package rules holds the repository-specific analyses (R-…) of vcheck.
package rules

import (
	"sort"

	"verif/checker/core"
)

// Rule is one analysis. Run returns every obligation it decided; each obligation names the
// properties it is evidence for. Min is the minimum number of obligations (per property) that
// the rule must produce on any tree: fewer means the rule matched nothing it was written for,
// which is a failed check, not a pass.
type Rule struct {
	ID    string
	Doc   string // one line: the rule applied (goes into the evidence)
	Props []string
	Min   map[string]int // property -> minimum instance count
	Run   func(c *core.Ctx) []core.Obligation
}

var registry []*Rule

func Register(r *Rule) { registry = append(registry, r) }

func All() []*Rule {
	out := append([]*Rule(nil), registry...)
	sort.Slice(out, func(i, j int) bool { return out[i].ID < out[j].ID })
	return out
}

func ForProperty(p string) []*Rule {
	var out []*Rule
	for _, r := range All() {
		for _, q := range r.Props {
			if q == p {
				out = append(out, r)
				break
			}
		}
	}
	return out
}

func ByID(id string) *Rule {
	for _, r := range registry {
		if r.ID == id {
			return r
		}
	}
	return nil
}

// helper to build obligations tersely
type ob struct {
	rule  string
	props []string
	c     *core.Ctx
	out   []core.Obligation
}

func newOb(c *core.Ctx, rule string, props ...string) *ob {
	return &ob{rule: rule, props: props, c: c}
}

func (b *ob) add(verdict, key, pos, msg string, path ...string) {
	b.out = append(b.out, core.Obligation{Rule: b.rule, Key: key, Verdict: verdict, Pos: pos, Msg: msg, Path: path, Props: b.props})
}
func (b *ob) addP(props []string, verdict, key, pos, msg string, path ...string) {
	b.out = append(b.out, core.Obligation{Rule: b.rule, Key: key, Verdict: verdict, Pos: pos, Msg: msg, Path: path, Props: props})
}
func (b *ob) ok(key, pos, msg string)                  { b.add(core.Discharged, key, pos, msg) }
func (b *ob) bad(key, pos, msg string, path ...string) { b.add(core.Violation, key, pos, msg, path...) }
func (b *ob) und(key, pos, msg string)                 { b.add(core.Undecided, key, pos, msg) }
func (b *ob) info(key, pos, msg string)                { b.add(core.Info, key, pos, msg) }
