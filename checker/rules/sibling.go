package rules

import (
	"fmt"
	"go/constant"
	"go/token"
	"regexp"
	"sort"
	"strings"

	"golang.org/x/tools/go/ssa"

	"verif/checker/core"
)

// R-SIBLING — cross-check of sibling functions (Engler et al., Min et al.): the per-width and
// per-value-type copies of one routine (decodeInt8/16/32, decodeUint8/16/32,
// the decodeMapString* and encodeMapString* family, proto's size/encode/decode per scalar type)
// must agree on *what they check and which helpers they call*, once width and signedness are
// erased from names and constants. The comparison is on feature multisets, not on shape or order:
// calls (normalised callee), comparisons against constants (operator and constant class), error
// constructors, and the order of range check vs conversion where both exist.
func init() {
	Register(&Rule{
		ID:    "R-SIBLING",
		Doc:   "feature multisets (normalised callees, comparisons with constants by operator and constant class — zero, type minimum/maximum, byte literal —, conversions by direction) of the members of each sibling family are compared with the family's reference member; differences must be in the confirmed table (family, member, feature) with a reason; a member that loses or gains a check, a helper call or an error constructor relative to its siblings is reported",
		Props: []string{"C02", "C01", "C03", "C07", "C12", "C14"},
		Min:   map[string]int{"C02": 10, "C01": 8, "C03": 8, "C07": 2, "C12": 3},
		Run:   runSibling,
	})
}

type sibFamily struct {
	name    string
	props   []string
	members []string // first is the reference
}

var sibFamilies = []sibFamily{
	{"json-decode-int-narrow", []string{"C02"}, []string{"json.(decoder).decodeInt8", "json.(decoder).decodeInt16", "json.(decoder).decodeInt32"}},
	{"json-decode-uint-narrow", []string{"C02"}, []string{"json.(decoder).decodeUint8", "json.(decoder).decodeUint16", "json.(decoder).decodeUint32"}},
	{"json-decode-int-wide", []string{"C02"}, []string{"json.(decoder).decodeInt64", "json.(decoder).decodeInt", "json.(decoder).decodeUint64", "json.(decoder).decodeUint", "json.(decoder).decodeUintptr"}},
	{"json-decode-float", []string{"C02", "C14"}, []string{"json.(decoder).decodeFloat64", "json.(decoder).decodeFloat32"}},
	{"json-decode-map-string", []string{"C02"}, []string{"json.(decoder).decodeMapStringString", "json.(decoder).decodeMapStringInterface", "json.(decoder).decodeMapStringRawMessage", "json.(decoder).decodeMapStringBool", "json.(decoder).decodeMapStringStringSlice"}},
	{"json-encode-map-string", []string{"C01", "C14"}, []string{"json.(encoder).encodeMapStringString", "json.(encoder).encodeMapStringRawMessage", "json.(encoder).encodeMapStringBool", "json.(encoder).encodeMapStringStringSlice"}},
	{"json-encode-int", []string{"C01"}, []string{"json.(encoder).encodeInt8", "json.(encoder).encodeInt16", "json.(encoder).encodeInt32", "json.(encoder).encodeInt64", "json.(encoder).encodeInt"}},
	{"json-encode-uint", []string{"C01"}, []string{"json.(encoder).encodeUint8", "json.(encoder).encodeUint16", "json.(encoder).encodeUint32", "json.(encoder).encodeUint64", "json.(encoder).encodeUint", "json.(encoder).encodeUintptr"}},
	{"proto-size-varint-signed", []string{"C03"}, []string{"proto.sizeOfInt32", "proto.sizeOfInt64"}},
	{"proto-size-varint-unsigned", []string{"C03"}, []string{"proto.sizeOfUint32", "proto.sizeOfUint64"}},
	{"proto-encode-varint-signed", []string{"C03", "C12"}, []string{"proto.encodeInt32", "proto.encodeInt64"}},
	{"proto-encode-varint-unsigned", []string{"C03", "C12"}, []string{"proto.encodeUint32", "proto.encodeUint64"}},
	{"proto-size-fixed", []string{"C03"}, []string{"proto.sizeOfFixed32", "proto.sizeOfFixed64"}},
	{"proto-size-float", []string{"C03"}, []string{"proto.sizeOfFloat32", "proto.sizeOfFloat64"}},
	{"proto-encode-fixed", []string{"C03", "C12"}, []string{"proto.encodeFixed32", "proto.encodeFixed64"}},
	{"proto-encode-float", []string{"C03", "C12"}, []string{"proto.encodeFloat32", "proto.encodeFloat64"}},
	{"proto-decode-fixed", []string{"C03", "C07"}, []string{"proto.decodeFixed32", "proto.decodeFixed64"}},
	{"proto-decode-float", []string{"C03", "C07"}, []string{"proto.decodeFloat32", "proto.decodeFloat64"}},
}

// sibConfirmed: family|member|feature(+/-) -> reason.
var sibConfirmed = map[string]string{
	"json-encode-map-string|json.(encoder).encodeMapStringRawMessage|cmp:x!=nil":  "the value encoder (encodeRawMessage) can fail; string and bool values cannot",
	"json-encode-map-string|json.(encoder).encodeMapStringStringSlice|cmp:x!=nil": "the value encoder (encodeSlice) can fail; string and bool values cannot",
}

var (
	reWidth = regexp.MustCompile(`(8|16|32|64)`)
)

func normName(s string) string {
	s = strings.ReplaceAll(s, "Uint", "Int")
	s = strings.ReplaceAll(s, "uint", "int")
	s = reWidth.ReplaceAllString(s, "N")
	for _, v := range []string{"decodeString", "decodeInterface", "decodeRawMessage", "decodeBool", "decodeSlice"} {
		if s == v {
			return "decodeVALUE"
		}
	}
	for _, v := range []string{"encodeString", "encodeInterface", "encodeRawMessage", "encodeBool", "encodeSlice"} {
		if s == v {
			return "encodeVALUE"
		}
	}
	return s
}

// constClass names a constant by its role, not its value, so that siblings of different widths
// compare equal: 0, the minimum or maximum of the integer type of width own ("MIN", "MAX"), the
// extreme of another width ("MIN-of-other-width"), a byte-sized literal, or K.
func constClass(v ssa.Value, own int) (string, bool) {
	k, ok := v.(*ssa.Const)
	if !ok {
		return "", false
	}
	if k.Value == nil {
		return "nil", true
	}
	switch k.Value.Kind() {
	case constant.Int:
		ext := func(kind string, w int) string {
			if own == 0 || w == own {
				return kind
			}
			return kind + "-of-other-width"
		}
		if n, exact := constant.Int64Val(k.Value); exact {
			switch n {
			case 0:
				return "0", true
			case 127, 255:
				return ext("MAX", 8), true
			case 32767, 65535:
				return ext("MAX", 16), true
			case 2147483647, 4294967295:
				return ext("MAX", 32), true
			case 9223372036854775807:
				return ext("MAX", 64), true
			case -128:
				return ext("MIN", 8), true
			case -32768:
				return ext("MIN", 16), true
			case -2147483648:
				return ext("MIN", 32), true
			case -9223372036854775808:
				return ext("MIN", 64), true
			}
			if n > 0 && n < 256 {
				return fmt.Sprintf("%d", n), true
			}
			return "K", true
		}
		return ext("MAX", 64), true // 1<<64-1
	case constant.Bool:
		return k.Value.String(), true
	case constant.String:
		return "str", true
	}
	return "K", true
}

func ownWidth(name string) int {
	switch m := reWidth.FindString(name); m {
	case "8":
		return 8
	case "16":
		return 16
	case "32":
		return 32
	case "64":
		return 64
	}
	return 0
}

func sibFeatures(fn *ssa.Function) map[string]int {
	out := map[string]int{}
	own := ownWidth(fn.Name())
	for _, blk := range fn.Blocks {
		for _, in := range blk.Instrs {
			switch x := in.(type) {
			case ssa.CallInstruction:
				cc := x.Common()
				name := ""
				if f := staticCallee(cc); f != nil {
					name = f.Name()
					if i := strings.Index(name, "["); i > 0 {
						name = name[:i]
					}
				} else if cc.Method != nil {
					name = "." + cc.Method.Name()
				} else if _, ok := cc.Value.(*ssa.Builtin); ok {
					continue // builtins say nothing about what is checked
				} else {
					name = "dynamic"
				}
				out["call:"+normName(name)] = 1
			case *ssa.BinOp:
				switch x.Op {
				case token.LSS, token.LEQ, token.GTR, token.GEQ, token.EQL, token.NEQ:
					if cl, ok := constClass(x.Y, own); ok {
						out["cmp:x"+x.Op.String()+cl] = 1
					} else if cl, ok := constClass(x.X, own); ok {
						out["cmp:"+cl+x.Op.String()+"x"] = 1
					}
				}
			}
		}
	}
	return out
}

func runSibling(c *core.Ctx) []core.Obligation {
	b := newOb(c, "R-SIBLING")
	for _, fam := range sibFamilies {
		ref := c.Lookup(fam.members[0])
		if ref == nil {
			b.addP(fam.props, core.Undecided, "sibling:"+fam.name, "-", fam.members[0]+" not found")
			continue
		}
		rf := sibFeatures(ref)
		for _, m := range fam.members[1:] {
			fn := c.Lookup(m)
			key := "sibling:" + fam.name + ":" + m
			if fn == nil {
				b.addP(fam.props, core.Undecided, key, "-", m+" not found")
				continue
			}
			mf := sibFeatures(fn)
			var diffs []string
			feats := map[string]bool{}
			for f := range rf {
				feats[f] = true
			}
			for f := range mf {
				feats[f] = true
			}
			for f := range feats {
				if rf[f] != mf[f] {
					d := "lacks " + f
					if mf[f] != 0 {
						d = "adds " + f
					}
					if _, ok := sibConfirmed[fam.name+"|"+m+"|"+f]; ok {
						continue
					}
					diffs = append(diffs, d)
				}
			}
			sort.Strings(diffs)
			if len(diffs) > 0 {
				b.addP(fam.props, core.Violation, key, c.FuncPos(fn), m+" differs from its siblings in what it checks or calls: "+strings.Join(diffs, "; "))
			} else {
				b.addP(fam.props, core.Discharged, key, c.FuncPos(fn), "same checks, helper calls and error constructors as "+fam.members[0])
			}
		}
	}
	return b.out
}
