package rules

import (
	"fmt"
	"go/constant"
	"go/token"
	"go/types"
	"sort"
	"strings"

	"golang.org/x/tools/go/ssa"

	"verif/checker/core"
)

// R-DELEGATE — every exported function of /repo/ascii is a pure delegation to the same-named
// function of github.com/segmentio/asm/ascii with the parameters in order and the result
// unmodified; the json fast paths that depend on these predicates select the right one.
func init() {
	Register(&Rule{
		ID:    "R-DELEGATE",
		Doc:   "each exported ascii.X over slices and strings is `return asm/ascii.X(params in order)` (callee object identity, argument positions, result unmodified); the four scalar predicates (ValidByte/Rune, ValidPrintByte/Rune) are evaluated, through the functions they call, at every byte value resp. every rune adjacent to a constant of their comparison chain and at the ends of the rune range, and must be true exactly on 0..0x7f resp. 0x20..0x7e; json's validAsciiPrint flag is set only under ascii.ValidPrint and appendToLower's fast path only under ascii.Valid",
		Props: []string{"C20", "C05"},
		Min:   map[string]int{"C20": 16, "C05": 2},
		Run:   runDelegate,
	})
}

const asmASCII = "github.com/segmentio/asm/ascii"

func runDelegate(c *core.Ctx) []core.Obligation {
	b := newOb(c, "R-DELEGATE", "C20")
	p := c.Pkg("ascii")
	if p == nil {
		b.und("package", "-", "package ascii not loaded")
		return b.out
	}
	names := p.Types.Scope().Names()
	sort.Strings(names)
	for _, name := range names {
		obj, ok := p.Types.Scope().Lookup(name).(*types.Func)
		if !ok || !obj.Exported() {
			continue
		}
		fn := c.FuncOf(obj)
		key := "ascii." + name
		if fn == nil || fn.Blocks == nil {
			b.und(key, c.PosOf(obj.Pos()), "no body")
			continue
		}
		pos := c.FuncPos(fn)
		// the scalar predicates are decided exactly: the wrapper (and what it calls) only compares
		// its argument with constants, so it is constant between consecutive constants; it is
		// evaluated at every byte value, resp. at every rune around each constant and at the ends
		// of the rune range, and must hold exactly on the defining interval
		if def, isScalar := map[string][2]int64{"ValidByte": {0, 0x7f}, "ValidRune": {0, 0x7f}, "ValidPrintByte": {0x20, 0x7e}, "ValidPrintRune": {0x20, 0x7e}}[name]; isScalar && len(fn.Params) == 1 {
			pts := scalarPoints(fn, strings.HasSuffix(name, "Byte"))
			bad, und := "", ""
			for _, v := range pts {
				got, why := evalScalarPred(fn, v, 0)
				if why != "" {
					und = why
					break
				}
				want := v >= def[0] && v <= def[1]
				if got != want {
					bad = fmt.Sprintf("%s(%d) is %v; the definition (%#x..%#x) says %v", key, v, got, def[0], def[1], want)
					break
				}
			}
			switch {
			case und != "":
				b.und(key, pos, key+" cannot be evaluated: "+und)
			case bad != "":
				b.bad(key, pos, bad+": the rune predicate disagrees with the byte predicate of the same name on values outside the byte range (negative runes are not ASCII)")
			default:
				b.ok(key, pos, fmt.Sprintf("evaluated at %d points (every constant of the comparison chain ±1, the ends of the domain): true exactly on %#x..%#x", len(pts), def[0], def[1]))
			}
			continue
		}
		// shape: one block, one call, return of its result
		var calls []*ssa.Call
		other := 0
		for _, blk := range fn.Blocks {
			for _, in := range blk.Instrs {
				switch x := in.(type) {
				case *ssa.Call:
					calls = append(calls, x)
				case *ssa.Return, *ssa.DebugRef:
				default:
					other++
				}
			}
		}
		rets := returnsOf(fn)
		if len(fn.Blocks) != 1 || len(calls) != 1 || other != 0 || len(rets) != 1 || len(rets[0].Results) != 1 || rets[0].Results[0] != ssa.Value(calls[0]) {
			b.bad(key, pos, fmt.Sprintf("%s is not a pure delegation (blocks=%d calls=%d other instructions=%d): the wrapper transforms arguments or result", key, len(fn.Blocks), len(calls), other))
			continue
		}
		callee := staticCallee(calls[0].Common())
		if callee == nil || callee.Object() == nil || callee.Object().Pkg() == nil {
			b.bad(key, pos, "delegates through a dynamic call")
			continue
		}
		if callee.Object().Pkg().Path() != asmASCII || callee.Object().Name() != name {
			b.bad(key, pos, fmt.Sprintf("%s delegates to %s.%s, not to %s.%s: it answers a different predicate", key, callee.Object().Pkg().Path(), callee.Object().Name(), asmASCII, name))
			continue
		}
		args := calls[0].Common().Args
		okArgs := len(args) == len(fn.Params)
		for i := range args {
			if okArgs && args[i] != ssa.Value(fn.Params[i]) {
				okArgs = false
			}
		}
		if !okArgs {
			b.bad(key, pos, fmt.Sprintf("%s does not pass its parameters to %s.%s in order and unmodified", key, asmASCII, name))
			continue
		}
		b.ok(key, pos, "return "+asmASCII+"."+name+"(params in order)")
	}

	// dependent fast paths in json
	dep := func(fnKey, flagConst, pred string, props ...string) {
		fn := c.Lookup(fnKey)
		key := "fastpath:" + fnKey + ":" + pred
		if fn == nil {
			b.addP(props, core.Undecided, key, "-", "function not found")
			return
		}
		found := false
		for _, blk := range fn.Blocks {
			n := len(blk.Instrs)
			if n == 0 {
				continue
			}
			ifi, ok := blk.Instrs[n-1].(*ssa.If)
			if !ok {
				continue
			}
			call, ok := ifi.Cond.(*ssa.Call)
			if !ok {
				continue
			}
			cal := staticCallee(call.Common())
			if cal == nil || cal.Object() == nil {
				continue
			}
			full := cal.Object().Pkg().Path() + "." + cal.Object().Name()
			if strings.HasSuffix(full, "/ascii."+pred) {
				found = true
			}
		}
		if flagConst != "" {
			// every OR of the flag constant must sit in a block dominated by the true edge of pred
			jp := c.Pkg("json")
			kobj, _ := jp.Types.Scope().Lookup(flagConst).(*types.Const)
			if kobj == nil {
				b.addP(props, core.Undecided, key, c.FuncPos(fn), "constant "+flagConst+" not found")
				return
			}
			kval, _ := constantUint(kobj)
			sites := 0
			for _, f := range c.RepoFunctions() {
				if !strings.HasPrefix(shortName(f), "json.") {
					continue
				}
				for _, blk := range f.Blocks {
					for _, in := range blk.Instrs {
						bo, ok := in.(*ssa.BinOp)
						if !ok || bo.Op != token.OR {
							continue
						}
						ky, ok := constUint(bo.Y)
						if !ok || ky&kval == 0 || !namedTypeIs(bo.Type(), "json", "ParseFlags") {
							continue
						}
						sites++
						good := false
						if f == fn {
							for _, e := range dominatingEdges(blk) {
								if call, ok := e.ifi.Cond.(*ssa.Call); ok && e.succ == 0 {
									if cal := staticCallee(call.Common()); cal != nil && cal.Object() != nil && strings.HasSuffix(cal.Object().Pkg().Path(), "/ascii") && cal.Object().Name() == pred {
										good = true
									}
								}
							}
						}
						if !good {
							b.addP(props, core.Violation, key+":set", c.InstrPos(bo), fmt.Sprintf("%s is OR-ed into a ParseFlags value in %s outside the true branch of ascii.%s: strings may skip per-byte validation on input that was never checked", flagConst, shortName(f), pred))
							return
						}
					}
				}
			}
			if sites == 0 {
				b.addP(props, core.Undecided, key, c.FuncPos(fn), flagConst+" is never set")
				return
			}
		}
		if found {
			b.addP(props, core.Discharged, key, c.FuncPos(fn), fmt.Sprintf("%s branches on ascii.%s; %s set only on its true branch", fnKey, pred, flagConst))
		} else {
			b.addP(props, core.Violation, key, c.FuncPos(fn), fmt.Sprintf("%s no longer branches on ascii.%s: its fast path is selected by a different predicate", fnKey, pred))
		}
	}
	dep("json.internalParseFlags", "validAsciiPrint", "ValidPrint", "C20", "C05")
	dep("json.appendToLower", "", "Valid", "C20", "C05")
	return b.out
}

func constantUint(k *types.Const) (uint64, bool) {
	s := k.Val().ExactString()
	var v uint64
	_, err := fmt.Sscan(s, &v)
	return v, err == nil
}

// scalarPoints: the arguments at which a comparison-only predicate is evaluated.
func scalarPoints(fn *ssa.Function, isByte bool) []int64 {
	if isByte {
		var out []int64
		for v := int64(0); v < 256; v++ {
			out = append(out, v)
		}
		return out
	}
	set := map[int64]bool{-2147483648: true, -2147483647: true, 2147483647: true, 2147483646: true, 0x10ffff: true, 0x110000: true}
	for v := int64(-300); v <= 0x300; v++ {
		set[v] = true
	}
	seen := map[*ssa.Function]bool{}
	var visit func(f *ssa.Function, depth int)
	visit = func(f *ssa.Function, depth int) {
		if f == nil || seen[f] || depth > 4 || f.Blocks == nil {
			return
		}
		seen[f] = true
		for _, blk := range f.Blocks {
			for _, in := range blk.Instrs {
				for _, op := range in.Operands(nil) {
					if k, ok := constInt(*op); ok {
						for d := int64(-1); d <= 1; d++ {
							if k+d >= -2147483648 && k+d <= 2147483647 {
								set[k+d] = true
							}
						}
					}
				}
				if ci, ok := in.(ssa.CallInstruction); ok {
					visit(staticCallee(ci.Common()), depth+1)
				}
			}
		}
	}
	visit(fn, 0)
	var out []int64
	for v := range set {
		out = append(out, v)
	}
	sort.Slice(out, func(i, j int) bool { return out[i] < out[j] })
	return out
}

// evalScalarPred evaluates a loop-free function of one integer argument that only converts it,
// compares it with constants, combines booleans and calls functions of the same kind.
func evalScalarPred(fn *ssa.Function, arg int64, depth int) (bool, string) {
	if fn == nil || fn.Blocks == nil || depth > 4 || len(fn.Params) != 1 {
		return false, "a callee without a body, or nested too deep"
	}
	wrap := func(v int64, t types.Type) int64 {
		bt, ok := t.Underlying().(*types.Basic)
		if !ok {
			return v
		}
		switch bt.Kind() {
		case types.Uint8:
			return v & 0xff
		case types.Int8:
			return int64(int8(v))
		case types.Uint16:
			return v & 0xffff
		case types.Int16:
			return int64(int16(v))
		case types.Uint32:
			return v & 0xffffffff
		case types.Int32:
			return int64(int32(v))
		}
		return v
	}
	unsigned := func(t types.Type) bool {
		bt, ok := t.Underlying().(*types.Basic)
		return ok && bt.Info()&types.IsUnsigned != 0
	}
	env := map[ssa.Value]int64{fn.Params[0]: wrap(arg, fn.Params[0].Type())}
	get := func(v ssa.Value) (int64, bool) {
		if k, ok := v.(*ssa.Const); ok {
			if k.Value == nil {
				return 0, false
			}
			if k.Value.Kind() == constant.Bool {
				if constant.BoolVal(k.Value) {
					return 1, true
				}
				return 0, true
			}
			if n, ok := constInt(v); ok {
				return n, true
			}
			return 0, false
		}
		x, ok := env[v]
		return x, ok
	}
	blk := fn.Blocks[0]
	var prev *ssa.BasicBlock
	for steps := 0; steps < 200; steps++ {
		var next *ssa.BasicBlock
		for _, in := range blk.Instrs {
			switch x := in.(type) {
			case *ssa.DebugRef:
			case *ssa.Phi:
				for i, p := range blk.Preds {
					if p == prev {
						if v, ok := get(x.Edges[i]); ok {
							env[x] = v
						}
					}
				}
			case *ssa.Convert:
				v, ok := get(x.X)
				if !ok {
					return false, "a conversion of an unknown value"
				}
				env[x] = wrap(v, x.Type())
			case *ssa.ChangeType:
				if v, ok := get(x.X); ok {
					env[x] = v
				}
			case *ssa.UnOp:
				v, ok := get(x.X)
				if !ok || x.Op != token.NOT {
					return false, "an operation that is not a comparison (" + x.Op.String() + ")"
				}
				env[x] = 1 - v
			case *ssa.BinOp:
				a, ok1 := get(x.X)
				bb, ok2 := get(x.Y)
				if !ok1 || !ok2 {
					return false, "an operand that is not derived from the argument or a constant"
				}
				us := unsigned(x.X.Type())
				cmp := func() int {
					if us {
						ua, ub := uint64(a), uint64(bb)
						switch {
						case ua < ub:
							return -1
						case ua > ub:
							return 1
						}
						return 0
					}
					switch {
					case a < bb:
						return -1
					case a > bb:
						return 1
					}
					return 0
				}
				r := int64(0)
				switch x.Op {
				case token.LSS:
					if cmp() < 0 {
						r = 1
					}
				case token.LEQ:
					if cmp() <= 0 {
						r = 1
					}
				case token.GTR:
					if cmp() > 0 {
						r = 1
					}
				case token.GEQ:
					if cmp() >= 0 {
						r = 1
					}
				case token.EQL:
					if a == bb {
						r = 1
					}
				case token.NEQ:
					if a != bb {
						r = 1
					}
				case token.SUB:
					r = wrap(a-bb, x.Type())
				case token.ADD:
					r = wrap(a+bb, x.Type())
				case token.AND:
					r = a & bb
				case token.OR:
					r = a | bb
				case token.XOR:
					r = wrap(a^bb, x.Type())
				default:
					return false, "an operation outside comparisons and offsets (" + x.Op.String() + ")"
				}
				env[x] = r
			case *ssa.Call:
				callee := staticCallee(x.Common())
				if callee == nil || len(x.Common().Args) != 1 {
					return false, "a call that is not a static call of a one-argument predicate"
				}
				a, ok := get(x.Common().Args[0])
				if !ok {
					return false, "a call on an unknown value"
				}
				r, why := evalScalarPred(callee, a, depth+1)
				if why != "" {
					return false, why
				}
				if r {
					env[x] = 1
				} else {
					env[x] = 0
				}
			case *ssa.If:
				v, ok := get(x.Cond)
				if !ok {
					return false, "a branch on an unknown value"
				}
				prev = blk
				if v != 0 {
					next = blk.Succs[0]
				} else {
					next = blk.Succs[1]
				}
			case *ssa.Jump:
				prev = blk
				next = blk.Succs[0]
			case *ssa.Return:
				if len(x.Results) != 1 {
					return false, "unexpected result arity"
				}
				v, ok := get(x.Results[0])
				if !ok {
					return false, "the result is not derived from the argument"
				}
				return v != 0, ""
			default:
				return false, fmt.Sprintf("an instruction outside the comparison fragment (%T)", in)
			}
		}
		if next == nil {
			return false, "evaluation fell off a block"
		}
		blk = next
	}
	return false, "evaluation did not terminate"
}
