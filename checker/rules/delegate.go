package rules

import (
	"fmt"
	"go/token"
	"go/types"
	"sort"
	"strings"

	"golang.org/x/tools/go/ssa"

	"verif/checker/core"
)

// R-DELEGATE — every exported function of /repo/ascii is a pure delegation to the same-named
// function of github.com/segmentio/asm/ascii with the parameters in order and the result
// unmodified; the json fast paths that depend on these predicates select the right one.
func init() {
	Register(&Rule{
		ID:    "R-DELEGATE",
		Doc:   "each exported ascii.X is `return asm/ascii.X(params in order)` (callee object identity, argument positions, result unmodified); json's validAsciiPrint flag is set only under ascii.ValidPrint and appendToLower's fast path only under ascii.Valid",
		Props: []string{"C20", "C05"},
		Min:   map[string]int{"C20": 16, "C05": 2},
		Run:   runDelegate,
	})
}

const asmASCII = "github.com/segmentio/asm/ascii"

func runDelegate(c *core.Ctx) []core.Obligation {
	b := newOb(c, "R-DELEGATE", "C20")
	p := c.Pkg("ascii")
	if p == nil {
		b.und("package", "-", "package ascii not loaded")
		return b.out
	}
	names := p.Types.Scope().Names()
	sort.Strings(names)
	for _, name := range names {
		obj, ok := p.Types.Scope().Lookup(name).(*types.Func)
		if !ok || !obj.Exported() {
			continue
		}
		fn := c.FuncOf(obj)
		key := "ascii." + name
		if fn == nil || fn.Blocks == nil {
			b.und(key, c.PosOf(obj.Pos()), "no body")
			continue
		}
		pos := c.FuncPos(fn)
		// shape: one block, one call, return of its result
		var calls []*ssa.Call
		other := 0
		for _, blk := range fn.Blocks {
			for _, in := range blk.Instrs {
				switch x := in.(type) {
				case *ssa.Call:
					calls = append(calls, x)
				case *ssa.Return, *ssa.DebugRef:
				default:
					other++
				}
			}
		}
		rets := returnsOf(fn)
		if len(fn.Blocks) != 1 || len(calls) != 1 || other != 0 || len(rets) != 1 || len(rets[0].Results) != 1 || rets[0].Results[0] != ssa.Value(calls[0]) {
			b.bad(key, pos, fmt.Sprintf("%s is not a pure delegation (blocks=%d calls=%d other instructions=%d): the wrapper transforms arguments or result", key, len(fn.Blocks), len(calls), other))
			continue
		}
		callee := staticCallee(calls[0].Common())
		if callee == nil || callee.Object() == nil || callee.Object().Pkg() == nil {
			b.bad(key, pos, "delegates through a dynamic call")
			continue
		}
		if callee.Object().Pkg().Path() != asmASCII || callee.Object().Name() != name {
			b.bad(key, pos, fmt.Sprintf("%s delegates to %s.%s, not to %s.%s: it answers a different predicate", key, callee.Object().Pkg().Path(), callee.Object().Name(), asmASCII, name))
			continue
		}
		args := calls[0].Common().Args
		okArgs := len(args) == len(fn.Params)
		for i := range args {
			if okArgs && args[i] != ssa.Value(fn.Params[i]) {
				okArgs = false
			}
		}
		if !okArgs {
			b.bad(key, pos, fmt.Sprintf("%s does not pass its parameters to %s.%s in order and unmodified", key, asmASCII, name))
			continue
		}
		b.ok(key, pos, "return "+asmASCII+"."+name+"(params in order)")
	}

	// dependent fast paths in json
	dep := func(fnKey, flagConst, pred string, props ...string) {
		fn := c.Lookup(fnKey)
		key := "fastpath:" + fnKey + ":" + pred
		if fn == nil {
			b.addP(props, core.Undecided, key, "-", "function not found")
			return
		}
		found := false
		for _, blk := range fn.Blocks {
			n := len(blk.Instrs)
			if n == 0 {
				continue
			}
			ifi, ok := blk.Instrs[n-1].(*ssa.If)
			if !ok {
				continue
			}
			call, ok := ifi.Cond.(*ssa.Call)
			if !ok {
				continue
			}
			cal := staticCallee(call.Common())
			if cal == nil || cal.Object() == nil {
				continue
			}
			full := cal.Object().Pkg().Path() + "." + cal.Object().Name()
			if strings.HasSuffix(full, "/ascii."+pred) {
				found = true
			}
		}
		if flagConst != "" {
			// every OR of the flag constant must sit in a block dominated by the true edge of pred
			jp := c.Pkg("json")
			kobj, _ := jp.Types.Scope().Lookup(flagConst).(*types.Const)
			if kobj == nil {
				b.addP(props, core.Undecided, key, c.FuncPos(fn), "constant "+flagConst+" not found")
				return
			}
			kval, _ := constantUint(kobj)
			sites := 0
			for _, f := range c.RepoFunctions() {
				if !strings.HasPrefix(shortName(f), "json.") {
					continue
				}
				for _, blk := range f.Blocks {
					for _, in := range blk.Instrs {
						bo, ok := in.(*ssa.BinOp)
						if !ok || bo.Op != token.OR {
							continue
						}
						ky, ok := constUint(bo.Y)
						if !ok || ky&kval == 0 || !namedTypeIs(bo.Type(), "json", "ParseFlags") {
							continue
						}
						sites++
						good := false
						if f == fn {
							for _, e := range dominatingEdges(blk) {
								if call, ok := e.ifi.Cond.(*ssa.Call); ok && e.succ == 0 {
									if cal := staticCallee(call.Common()); cal != nil && cal.Object() != nil && strings.HasSuffix(cal.Object().Pkg().Path(), "/ascii") && cal.Object().Name() == pred {
										good = true
									}
								}
							}
						}
						if !good {
							b.addP(props, core.Violation, key+":set", c.InstrPos(bo), fmt.Sprintf("%s is OR-ed into a ParseFlags value in %s outside the true branch of ascii.%s: strings may skip per-byte validation on input that was never checked", flagConst, shortName(f), pred))
							return
						}
					}
				}
			}
			if sites == 0 {
				b.addP(props, core.Undecided, key, c.FuncPos(fn), flagConst+" is never set")
				return
			}
		}
		if found {
			b.addP(props, core.Discharged, key, c.FuncPos(fn), fmt.Sprintf("%s branches on ascii.%s; %s set only on its true branch", fnKey, pred, flagConst))
		} else {
			b.addP(props, core.Violation, key, c.FuncPos(fn), fmt.Sprintf("%s no longer branches on ascii.%s: its fast path is selected by a different predicate", fnKey, pred))
		}
	}
	dep("json.internalParseFlags", "validAsciiPrint", "ValidPrint", "C20", "C05")
	dep("json.appendToLower", "", "Valid", "C20", "C05")
	return b.out
}

func constantUint(k *types.Const) (uint64, bool) {
	s := k.Val().ExactString()
	var v uint64
	_, err := fmt.Sscan(s, &v)
	return v, err == nil
}
