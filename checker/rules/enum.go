package rules

import (
	"fmt"
	"go/token"
	"go/types"
	"sort"
	"strings"

	"golang.org/x/tools/go/ssa"

	"verif/checker/core"
)

// R-ENUM — dispatchers over the repository's own enumerations have a case for every constant, and
// the option setters of json toggle the flag they are named after, with the same bit on both
// branches.
func init() {
	Register(&Rule{
		ID:    "R-ENUM",
		Doc:   "constant-set dataflow over the switch of thrift.skip: every thrift.Type constant except STOP reaches a case of its own; json Encoder/Decoder option methods: the constant or'ed in (and and-not'ed out on the other branch of a bool setter) is the exported flag whose name the method carries (SetEscapeHTML ↔ EscapeHTML, UseNumber ↔ UseNumber, …), and both branches use the same constant",
		Props: []string{"C08", "C14", "C01", "C02", "C13", "C05"},
		Min:   map[string]int{"C08": 10, "C14": 8, "C01": 3, "C02": 5},
		Run:   runEnum,
	})
}

func pkgConstsOfType(c *core.Ctx, pkg, typ string) map[string]int64 {
	out := map[string]int64{}
	p := c.Pkg(pkg)
	if p == nil {
		return out
	}
	scope := p.Types.Scope()
	for _, name := range scope.Names() {
		k, ok := scope.Lookup(name).(*types.Const)
		if !ok {
			continue
		}
		n, ok := k.Type().(*types.Named)
		if !ok || n.Obj().Name() != typ {
			continue
		}
		if v, ok := constantUint(k); ok {
			out[name] = int64(v)
		}
	}
	return out
}

func runEnum(c *core.Ctx) []core.Obligation {
	b := newOb(c, "R-ENUM")
	// 1. thrift.skip
	if fn := c.Lookup("thrift.skip"); fn != nil {
		consts := pkgConstsOfType(c, "thrift", "Type")
		var names []string
		for n := range consts {
			names = append(names, n)
		}
		sort.Strings(names)
		// aliases (BOOL = FALSE) are one constant
		var universe []int64
		{
			seenV := map[int64]bool{}
			var uniq []string
			for _, n := range names {
				if seenV[consts[n]] {
					continue
				}
				seenV[consts[n]] = true
				uniq = append(uniq, n)
				universe = append(universe, consts[n])
			}
			names = uniq
		}
		var tparam ssa.Value
		for _, p := range fn.Params {
			if strings.HasSuffix(typeShort(p.Type()), "thrift.Type") {
				tparam = p
			}
		}
		if tparam == nil || len(universe) == 0 {
			b.addP([]string{"C08"}, core.Undecided, "enum:thrift.skip", c.FuncPos(fn), "thrift.skip has no Type parameter / no Type constants found")
		} else {
			flow := constFlow(fn, tparam, universe)
			other := uint32(1) << uint(len(universe))
			for i, n := range names {
				if n == "STOP" {
					continue
				}
				key := "enum:thrift.skip:" + n
				handled := false
				for blk, set := range flow {
					if set&(1<<uint(i)) == 0 || set&other != 0 {
						continue
					}
					// a block specific to a few constants that does something (a call)
					if popcount(set) <= 2 {
						for _, in := range blk.Instrs {
							if _, ok := in.(ssa.CallInstruction); ok {
								handled = true
							}
						}
					}
				}
				// the case reads the value with the reader of that type: in the compact protocol an
				// i64 is a varint and a double eight fixed bytes, a "both are 64 bits" merge loses
				// framing
				want := map[string]string{"TRUE": "ReadBool", "FALSE": "ReadBool", "BOOL": "ReadBool", "I8": "ReadInt8", "I16": "ReadInt16", "I32": "ReadInt32", "I64": "ReadInt64", "DOUBLE": "ReadFloat64", "BINARY": "skipBinary", "LIST": "skipList", "SET": "skipSet", "MAP": "skipMap", "STRUCT": "skipStruct"}[n]
				wrong := ""
				if handled && want != "" {
					found := false
					var got []string
					for blk, set := range flow {
						if set&(1<<uint(i)) == 0 || set&other != 0 || popcount(set) > 2 {
							continue
						}
						for _, in := range blk.Instrs {
							ci, ok := in.(ssa.CallInstruction)
							if !ok {
								continue
							}
							name := ""
							if ci.Common().Method != nil {
								name = ci.Common().Method.Name()
							} else if f := staticCallee(ci.Common()); f != nil {
								name = f.Name()
							}
							got = append(got, name)
							if name == want {
								found = true
							}
						}
					}
					if !found {
						wrong = fmt.Sprintf("%v", got)
					}
				}
				if wrong != "" {
					b.addP([]string{"C08", "C13"}, core.Violation, key, c.FuncPos(fn), fmt.Sprintf("thrift.skip consumes a value of Type %s with %s instead of %s: the two have different encodings in the compact protocol (an i64 is a zig-zag varint, a double eight bytes), so skipping an undeclared field of that type loses the framing of everything after it", n, wrong, want))
				} else if handled {
					b.addP([]string{"C08"}, core.Discharged, key, c.FuncPos(fn), "has a case of its own, which reads with "+want)
				} else {
					b.addP([]string{"C08"}, core.Violation, key, c.FuncPos(fn), fmt.Sprintf("thrift.skip has no case for Type %s: a field of that type that the target does not declare cannot be skipped, and decoding fails (or loses framing) instead of ignoring it", n))
				}
			}
		}
	} else {
		b.addP([]string{"C08"}, core.Undecided, "enum:thrift.skip", "-", "thrift.skip not found")
	}

	// 2. json option setters
	appendFlags := pkgConstsOfType(c, "json", "AppendFlags")
	parseFlags := pkgConstsOfType(c, "json", "ParseFlags")
	nameOf := func(m map[string]int64, v int64) string {
		var ns []string
		for n, x := range m {
			if x == v {
				ns = append(ns, n)
			}
		}
		sort.Strings(ns)
		return strings.Join(ns, "/")
	}
	for _, fn := range c.RepoFunctions() {
		recv := fn.Signature.Recv()
		if recv == nil || fn.Blocks == nil || fn.Synthetic != "" {
			continue
		}
		rt := typeShort(recv.Type())
		var table map[string]int64
		var props []string
		switch {
		case strings.HasSuffix(rt, "json.Encoder"):
			// a setter that clobbers the other bits also switches TrustRawMessage: C05's subject
			table, props = appendFlags, []string{"C14", "C01", "C05"}
		case strings.HasSuffix(rt, "json.Decoder"):
			table, props = parseFlags, []string{"C14", "C02"}
		default:
			continue
		}
		var ors, andnots []int64
		var others []string
		for _, blk := range fn.Blocks {
			for _, in := range blk.Instrs {
				bo, ok := in.(*ssa.BinOp)
				if !ok {
					continue
				}
				if _, isFlagLoad := fieldOfLoad(bo.X); !isFlagLoad {
					continue
				}
				k, isK := constInt(bo.Y)
				if !isK {
					continue
				}
				switch bo.Op {
				case token.OR:
					ors = append(ors, k)
				case token.AND_NOT:
					andnots = append(andnots, k)
				case token.AND:
					// flags &= ^X is compiled as an AND with the complemented constant
					andnots = append(andnots, ^k&0xFFFFFFFF)
				default:
					// ^= toggles: SetX(false) on an encoder whose X is already off turns it on
					others = append(others, fmt.Sprintf("applies %s %#x to the flags", bo.Op, k))
				}
			}
		}
		// a setter that assigns a constant instead of combining it with the old flags clobbers every
		// other option (UseNumber followed by DisallowUnknownFields forgets UseNumber)
		assigned := ""
		for _, blk := range fn.Blocks {
			for _, in := range blk.Instrs {
				st, ok := in.(*ssa.Store)
				if !ok {
					continue
				}
				fa, ok := st.Addr.(*ssa.FieldAddr)
				if !ok || fieldNameOf(fa) != "flags" {
					continue
				}
				if k, isK := constInt(st.Val); isK {
					assigned = fmt.Sprintf("assigns the constant %#x to the flags", k)
				}
			}
		}
		if len(ors) == 0 && assigned == "" {
			continue
		}
		if assigned != "" {
			key := "enum:json-option:" + strings.TrimPrefix(rt, "*") + "." + fn.Name()
			b.addP(props, core.Violation, key, c.FuncPos(fn), fmt.Sprintf("%s.%s %s instead of or-ing its bit into them: every option set earlier on the same value is lost (UseNumber then DisallowUnknownFields decodes numbers as float64)", rt, fn.Name(), assigned))
			continue
		}
		mname := fn.Name()
		key := "enum:json-option:" + strings.TrimPrefix(rt, "*") + "." + mname
		var problems []string
		for _, o := range others {
			problems = append(problems, o+" (a setter sets with | and clears with &^: any other operator makes the result depend on the previous state — SetEscapeHTML(false) twice turns escaping back on)")
		}
		if len(andnots) == 0 && len(others) == 0 && fn.Signature.Params().Len() == 1 && fn.Signature.Params().At(0).Type().String() == "bool" {
			problems = append(problems, "never clears the flag on the off branch")
		}
		for _, k := range ors {
			fname := nameOf(table, k)
			want := strings.TrimPrefix(mname, "Set")
			match := false
			for _, n := range strings.Split(fname, "/") {
				if n == want || strings.EqualFold(n, want) {
					match = true
				}
			}
			if !match && fname != "" && !strings.HasPrefix(fname, strings.ToLower(fname[:1])) {
				problems = append(problems, fmt.Sprintf("sets the flag %s", fname))
			}
			if fname == "" {
				problems = append(problems, fmt.Sprintf("sets bits %#x, which is not one declared flag", k))
			}
		}
		for _, k := range andnots {
			found := false
			for _, o := range ors {
				if o == k {
					found = true
				}
			}
			if !found {
				problems = append(problems, fmt.Sprintf("clears %s on the off branch but sets %s on the on branch", nameOf(table, k), nameOf(table, ors[0])))
			}
		}
		if len(problems) > 0 {
			b.addP(props, core.Violation, key, c.FuncPos(fn), fmt.Sprintf("%s.%s %s: the option named by the method is not the one it toggles", rt, mname, strings.Join(problems, "; ")))
		} else {
			b.addP(props, core.Discharged, key, c.FuncPos(fn), fmt.Sprintf("toggles %s", nameOf(table, ors[0])))
		}
	}
	return b.out
}
