package rules

import (
	"go/constant"
	"go/token"
	"sort"
	"strings"

	"golang.org/x/tools/go/ssa"

	"verif/checker/core"
)

// R-NULLARM — sibling agreement of json's decode functions on the literal null: encoding/json
// accepts null for a target of every type (it zeroes references and leaves everything else
// untouched). Every decoder.decodeX method therefore either has a null arm — a hasNullPrefix test
// on its input whose true edge returns b[4:] with a nil error, or hands the untouched input to the
// decode function it wraps — or is listed with the reason why
// null is handled elsewhere.
func init() {
	Register(&Rule{
		ID:    "R-NULLARM",
		Doc:   "every json decoder.decode* method has a null arm: hasNullPrefix(b) on the input parameter, whose true edge reaches only returns of (b[4:], nil) or of a call that receives b unchanged (the wrapped decode function); the methods that classify the value through parseValue or delegate are listed with a reason, and the listed methods must indeed not test hasNullPrefix (a stale entry fails)",
		Props: []string{"C02"},
		Min:   map[string]int{"C02": 35},
		Run:   runNullArm,
	})
}

// nullArmElsewhere: decode methods without a hasNullPrefix test, each with the construct that
// handles null instead (verified below where it is structural).
var nullArmElsewhere = map[string]string{
	"json.(decoder).decodeJSONUnmarshaler":       "passes",     // UnmarshalJSON is called with null, like encoding/json
	"json.(decoder).decodeTextUnmarshaler":       "class-null", // parseValue classifies; case Null returns b, nil
	"json.(decoder).decodeRawMessage":            "stores",     // null is a value of RawMessage: stored verbatim like encoding/json
	"json.(decoder).decodeDynamicNumber":         "delegates",  // called by decodeInterface for number tokens only
	"json.(decoder).decodeEmbeddedStructPointer": "delegates",  // delegates to the embedded struct's decode function, which has the arm
}

func runNullArm(c *core.Ctx) []core.Obligation {
	b := newOb(c, "R-NULLARM", "C02")
	var fns []*ssa.Function
	for _, fn := range c.RepoFunctions() {
		if fn.Blocks == nil || fn.Synthetic != "" || fn.Signature.Recv() == nil || fn.Parent() != nil {
			continue
		}
		if typeShort(fn.Signature.Recv().Type()) != "json.decoder" || !strings.HasPrefix(fn.Name(), "decode") {
			continue
		}
		// (b []byte, p unsafe.Pointer, ...) ([]byte, error)
		sig := fn.Signature
		if sig.Params().Len() < 2 || sig.Results().Len() != 2 {
			continue
		}
		if sig.Params().At(0).Type().String() != "[]byte" || sig.Params().At(1).Type().String() != "unsafe.Pointer" {
			continue
		}
		fns = append(fns, fn)
	}
	sort.Slice(fns, func(i, j int) bool { return shortName(fns[i]) < shortName(fns[j]) })
	if len(fns) == 0 {
		b.und("null-arm:-", "-", "no json decoder.decode* method found")
		return b.out
	}
	for _, fn := range fns {
		name := shortName(fn)
		key := "null-arm:" + name
		in := fn.Params[1] // receiver is Params[0]
		var tests []*ssa.If
		for _, blk := range fn.Blocks {
			for _, ins := range blk.Instrs {
				call, ok := ins.(*ssa.Call)
				if !ok {
					continue
				}
				f := staticCallee(call.Common())
				if f == nil || f.Name() != "hasNullPrefix" || len(call.Call.Args) != 1 || call.Call.Args[0] != in {
					continue
				}
				for _, ref := range *call.Referrers() {
					if ifi, isIf := ref.(*ssa.If); isIf {
						tests = append(tests, ifi)
					}
				}
			}
		}
		how, listed := nullArmElsewhere[name]
		if len(tests) == 0 {
			if !listed {
				b.bad(key, c.FuncPos(fn), name+" has no null arm (no hasNullPrefix test on its input) and is not one of the listed methods that handle null elsewhere: null for this target is an error where encoding/json accepts it")
				continue
			}
			if how == "class-null" && !comparesNullClass(fn) {
				b.bad(key, c.FuncPos(fn), name+" is listed as classifying its value through parseValue, but no comparison with the Null kind is left in it")
				continue
			}
			b.ok(key, c.FuncPos(fn), "null handled elsewhere: "+how)
			if how == "class-null" {
				// encoding/json does not hand null to UnmarshalText: it stores it like for any
				// other type — a map or a slice (with UnmarshalText on its pointer) becomes nil.
				// The Null case of the classifier must therefore do something before returning.
				k2 := key + ":zeroes-references"
				acts := false
				for _, blk := range fn.Blocks {
					ifi, ok := blk.Instrs[len(blk.Instrs)-1].(*ssa.If)
					if !ok {
						continue
					}
					bo, ok := ifi.Cond.(*ssa.BinOp)
					if !ok || bo.Op != token.EQL {
						continue
					}
					isNull := false
					for _, op := range []ssa.Value{bo.X, bo.Y} {
						if kc, isK := op.(*ssa.Const); isK && kc.Value != nil && kc.Value.Kind() == constant.Int && strings.HasSuffix(kc.Type().String(), "json.Kind") {
							if n, _ := constant.Int64Val(kc.Value); n == 1 {
								isNull = true
							}
						}
					}
					if !isNull {
						continue
					}
					for rb := range reachableFrom(blk.Succs[0], map[*ssa.BasicBlock]bool{blk.Succs[1]: true}) {
						for _, ins := range rb.Instrs {
							if call, ok := ins.(ssa.CallInstruction); ok {
								n := calleeName(call.Common())
								if strings.HasSuffix(n, "reflect.Value).Set") || strings.HasSuffix(n, "reflect.Value).SetZero") || strings.HasSuffix(n, "typedmemclr") || strings.HasSuffix(n, "reflect.Zero") {
									acts = true
								}
							}
							if st, ok := ins.(*ssa.Store); ok && isNilConst(st.Val) {
								acts = true
							}
						}
					}
				}
				if acts {
					b.ok(k2, c.FuncPos(fn), "the Null case clears the destination where it is a reference")
				} else {
					b.bad(k2, c.FuncPos(fn), name+" returns at once on null: a map or slice type whose pointer implements TextUnmarshaler keeps its old contents, where encoding/json (which never hands null to UnmarshalText) sets it to nil — {\"M\":null} into struct{M M} with type M map[string]string and func (*M) UnmarshalText leaves M populated")
				}
			}
			continue
		}
		if listed {
			b.bad(key, c.FuncPos(fn), name+" is listed as handling null elsewhere ("+how+") but tests hasNullPrefix: the table entry is stale")
			continue
		}
		good, badPos := false, ""
		for _, ifi := range tests {
			t, f := ifi.Block().Succs[0], ifi.Block().Succs[1]
			seen := map[*ssa.BasicBlock]bool{f: true}
			work := []*ssa.BasicBlock{t}
			for len(work) > 0 {
				blk := work[len(work)-1]
				work = work[:len(work)-1]
				if seen[blk] {
					continue
				}
				seen[blk] = true
				if ret, isRet := blk.Instrs[len(blk.Instrs)-1].(*ssa.Return); isRet {
					if isNullRemainder(ret.Results[0], in) && isNilConst(ret.Results[1]) {
						good = true
					} else if delegatesInput(ret, in) {
						good = true // the inner decode function sees the untouched null and has its own arm
					} else if badPos == "" {
						badPos = c.PosOf(ret.Pos())
					}
				}
				work = append(work, blk.Succs...)
			}
		}
		switch {
		case badPos != "":
			b.bad(key, badPos, name+": a return reached from the null arm does not hand back (b[4:], nil)")
		case !good:
			b.bad(key, c.FuncPos(fn), name+": the null arm reaches no return of (b[4:], nil)")
		default:
			b.ok(key, c.FuncPos(fn), "null arm returns (b[4:], nil)")
		}
	}
	// null into a pointer: encoding/json stops at the first settable pointer and sets it to nil
	// (indirect: decodingNull && v.CanSet()); it never passes null on to what the pointer points to.
	if fn := c.Lookup("json.(decoder).decodePointer"); fn != nil {
		key := "null-arm:pointer-set-nil"
		in := fn.Params[1]
		delegated, setsNil := "", false
		for _, blk := range fn.Blocks {
			inArm := false
			for _, e := range dominatingEdges(blk) {
				if call, isCall := e.ifi.Cond.(*ssa.Call); isCall && e.succ == 0 {
					if f := staticCallee(call.Common()); f != nil && f.Name() == "hasNullPrefix" && len(call.Call.Args) == 1 && call.Call.Args[0] == ssa.Value(in) {
						inArm = true
					}
				}
			}
			if !inArm {
				continue
			}
			for _, ins := range blk.Instrs {
				switch x := ins.(type) {
				case *ssa.Call:
					if staticCallee(x.Common()) == nil && !x.Common().IsInvoke() {
						if _, isB := x.Call.Value.(*ssa.Builtin); !isB {
							delegated = c.InstrPos(x)
						}
					}
				case *ssa.Store:
					if isNilConst(x.Val) {
						setsNil = true
					}
				}
			}
		}
		switch {
		case delegated != "":
			b.bad(key, delegated, "decodePointer hands null to the decoder of the pointed-to value when the pointer is not nil: for a **T the inner pointer is cleared and the outer one kept, where encoding/json clears the pointer it was asked to decode into")
		case !setsNil:
			b.bad(key, c.FuncPos(fn), "the null arm of decodePointer does not store nil through its target")
		default:
			b.ok(key, c.FuncPos(fn), "null sets the pointer itself to nil and is not passed on")
		}
	} else {
		b.und("null-arm:pointer-set-nil", "-", "json.(decoder).decodePointer not found")
	}
	return b.out
}

func isNullRemainder(v ssa.Value, in ssa.Value) bool {
	s, ok := v.(*ssa.Slice)
	if !ok || s.X != in || s.High != nil || s.Max != nil {
		return false
	}
	k, isK := s.Low.(*ssa.Const)
	if !isK || k.Value == nil || k.Value.Kind() != constant.Int {
		return false
	}
	n, _ := constant.Int64Val(k.Value)
	return n == 4
}

// delegatesInput: return f(…, in, …) — both results come from one call that receives the input as is.
func delegatesInput(ret *ssa.Return, in ssa.Value) bool {
	ex, ok := ret.Results[0].(*ssa.Extract)
	if !ok {
		return false
	}
	ex2, ok2 := ret.Results[1].(*ssa.Extract)
	if !ok2 || ex2.Tuple != ex.Tuple {
		return false
	}
	call, isCall := ex.Tuple.(*ssa.Call)
	if !isCall {
		return false
	}
	for _, a := range call.Call.Args {
		if a == in {
			return true
		}
	}
	return false
}

// comparesNullClass: some comparison or switch in fn tests a Kind value against json.Null.
func comparesNullClass(fn *ssa.Function) bool {
	for _, blk := range fn.Blocks {
		for _, ins := range blk.Instrs {
			bo, ok := ins.(*ssa.BinOp)
			if !ok || bo.Op != token.EQL {
				continue
			}
			for _, op := range []ssa.Value{bo.X, bo.Y} {
				k, isK := op.(*ssa.Const)
				if !isK || k.Value == nil || k.Value.Kind() != constant.Int {
					continue
				}
				if strings.HasSuffix(k.Type().String(), "json.Kind") {
					if n, _ := constant.Int64Val(k.Value); n == 1 {
						return true
					}
				}
			}
		}
	}
	return false
}
