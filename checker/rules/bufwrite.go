package rules

import (
	"fmt"
	"go/token"
	"sort"
	"strings"

	"golang.org/x/tools/go/ssa"

	"verif/checker/core"
)

// R-BUFWRITE — every write into the caller's proto destination buffer is space-checked and the
// failing branch returns io.ErrShortBuffer.
func init() {
	Register(&Rule{
		ID:    "R-BUFWRITE",
		Doc:   "each write into the proto destination buffer (index store / Put*: W1, copy: W2, window b[o:o+size]: W3, user Marshal/MarshalTo: W4) is dominated by a length test whose failing branch returns io.ErrShortBuffer",
		Props: []string{"C16"},
		Min:   map[string]int{"C16": 25},
		Run:   runBufWrite,
	})
}

// domEdge is a branch edge (If block, successor index) that dominates a block.
type domEdge struct {
	ifi  *ssa.If
	succ int
}

// dominatingEdges lists the branch edges that every path to blk takes.
func dominatingEdges(blk *ssa.BasicBlock) []domEdge {
	var out []domEdge
	for x := blk; x != nil && x.Idom() != nil; x = x.Idom() {
		d := x.Idom()
		if len(x.Preds) != 1 || x.Preds[0] != d || len(d.Instrs) == 0 {
			continue
		}
		ifi, ok := d.Instrs[len(d.Instrs)-1].(*ssa.If)
		if !ok {
			continue
		}
		for i, s := range d.Succs {
			if s == x && d.Succs[1-i] != x {
				out = append(out, domEdge{ifi, i})
			}
		}
	}
	return out
}

func isLenOf(v ssa.Value, of ssa.Value) bool {
	call, ok := v.(*ssa.Call)
	if !ok {
		return false
	}
	bi, ok := call.Common().Value.(*ssa.Builtin)
	return ok && bi.Name() == "len" && call.Common().Args[0] == of
}

// blockReturnsShortBuffer: the block loads io.ErrShortBuffer (and returns or feeds an error φ).
func blockMentionsShortBuffer(blk *ssa.BasicBlock) bool {
	for _, in := range blk.Instrs {
		if u, ok := in.(*ssa.UnOp); ok && u.Op == token.MUL {
			if g, ok := u.X.(*ssa.Global); ok && g.Name() == "ErrShortBuffer" && g.Pkg.Pkg.Path() == "io" {
				return true
			}
		}
	}
	return false
}

// lenFacts derives, from the branch edges dominating blk, lower bounds on len(b).
type lenFacts struct {
	constLower int64               // len(b) >= constLower
	geVals     map[ssa.Value]bool  // len(b) >= v
	eqConst    map[ssa.Value]int64 // v == c
	windows    [][2]ssa.Value      // (lo, size): len(b) - lo >= size
	shortOK    bool                // every length test used returns io.ErrShortBuffer on failure
	badErr     []string
}

func collectLenFacts(c *core.Ctx, blk *ssa.BasicBlock, b ssa.Value) *lenFacts {
	f := &lenFacts{geVals: map[ssa.Value]bool{}, eqConst: map[ssa.Value]int64{}, shortOK: true}
	for _, e := range dominatingEdges(blk) {
		bo, ok := e.ifi.Cond.(*ssa.BinOp)
		if !ok {
			continue
		}
		failBlk := e.ifi.Block().Succs[1-e.succ]
		noteErr := func() {
			if !blockMentionsShortBuffer(failBlk) {
				f.shortOK = false
				f.badErr = append(f.badErr, c.InstrPos(e.ifi))
			}
		}
		x, y := bo.X, bo.Y
		op := bo.Op
		// normalise so that len(b)-ish is on the left
		if isLenOf(y, b) || isLenSub(y, b) {
			x, y = y, x
			switch op {
			case token.LSS:
				op = token.GTR
			case token.GTR:
				op = token.LSS
			case token.LEQ:
				op = token.GEQ
			case token.GEQ:
				op = token.LEQ
			}
		}
		switch {
		case isLenOf(x, b):
			k, isK := constInt(y)
			switch {
			case op == token.LSS && e.succ == 1: // !(len(b) < y)
				if isK {
					if k > f.constLower {
						f.constLower = k
					}
				} else {
					f.geVals[y] = true
				}
				noteErr()
			case op == token.GEQ && e.succ == 0:
				if isK {
					if k > f.constLower {
						f.constLower = k
					}
				} else {
					f.geVals[y] = true
				}
				noteErr()
			case op == token.EQL && e.succ == 1 && isK && k == 0: // len(b) != 0
				if f.constLower < 1 {
					f.constLower = 1
				}
				noteErr()
			case op == token.NEQ && e.succ == 0 && isK && k == 0:
				if f.constLower < 1 {
					f.constLower = 1
				}
				noteErr()
			}
		case isLenSub(x, b):
			lo := x.(*ssa.BinOp).Y
			if (op == token.LSS && e.succ == 1) || (op == token.GEQ && e.succ == 0) {
				f.windows = append(f.windows, [2]ssa.Value{lo, y})
				noteErr()
			}
		default:
			// n == c on the taken edge
			if op == token.EQL && e.succ == 0 {
				if k, ok := constInt(y); ok {
					f.eqConst[x] = k
				} else if k, ok := constInt(x); ok {
					f.eqConst[y] = k
				}
			}
		}
	}
	return f
}

// isLenSub: v is len(b) - lo.
func isLenSub(v ssa.Value, b ssa.Value) bool {
	bo, ok := v.(*ssa.BinOp)
	return ok && bo.Op == token.SUB && isLenOf(bo.X, b)
}

func (f *lenFacts) atLeast(n int64) bool {
	if f.constLower >= n {
		return true
	}
	for v := range f.geVals {
		if k, ok := f.eqConst[v]; ok && k >= n {
			return true
		}
	}
	return false
}

func runBufWrite(c *core.Ctx) []core.Obligation {
	b := newOb(c, "R-BUFWRITE", "C16")
	// scope: every encode function of a codec plus the static proto helpers with a []byte
	// destination that they (transitively) call.
	scope := map[*ssa.Function]bool{}
	var add func(fn *ssa.Function)
	add = func(fn *ssa.Function) {
		if fn == nil || fn.Blocks == nil || scope[fn] || bufParam(fn) == nil {
			return
		}
		scope[fn] = true
		for _, ci := range callsIn(fn) {
			if callee := staticCallee(ci.Common()); callee != nil && strings.HasPrefix(qualName(callee), protoPath) {
				// only helpers that receive (a part of) the destination
				for _, a := range ci.Common().Args {
					if derivesFromValue(a, bufParam(fn)) {
						add(callee)
					}
				}
			}
		}
	}
	for _, pc := range protoCodecs(c) {
		for _, fn := range pc.encode {
			add(fn)
		}
	}
	var fns []*ssa.Function
	for fn := range scope {
		fns = append(fns, fn)
	}
	sort.Slice(fns, func(i, j int) bool { return shortName(fns[i]) < shortName(fns[j]) })

	for _, fn := range fns {
		bp := bufParam(fn)
		name := shortName(fn)
		counts := map[string]int{}
		key := func(kind string) string {
			counts[kind]++
			return fmt.Sprintf("%s:%s#%d", name, kind, counts[kind])
		}
		for _, blk := range fn.Blocks {
			for _, in := range blk.Instrs {
				switch x := in.(type) {
				case *ssa.Store:
					ia, ok := x.Addr.(*ssa.IndexAddr)
					if !ok || !derivesFromValue(ia.X, bp) {
						continue
					}
					k := key("W1-store")
					idx, isK := constInt(ia.Index)
					if ia.X != ssa.Value(bp) || !isK {
						b.und(k, c.InstrPos(x), "index store into a derived slice or at a computed index: not an idiom this rule can bound")
						continue
					}
					f := collectLenFacts(c, blk, bp)
					switch {
					case !f.atLeast(idx + 1):
						b.bad(k, c.InstrPos(x), fmt.Sprintf("%s stores b[%d] with no dominating test that len(b) > %d", name, idx, idx))
					case !f.shortOK:
						b.bad(k, c.InstrPos(x), fmt.Sprintf("the length test guarding b[%d] does not return io.ErrShortBuffer (%v)", idx, f.badErr))
					default:
						b.ok(k, c.InstrPos(x), fmt.Sprintf("b[%d] guarded by a dominating length test returning io.ErrShortBuffer", idx))
					}
				case *ssa.Call:
					cc := x.Common()
					cn := calleeName(cc)
					switch {
					case cn == "(encoding/binary.littleEndian).PutUint32" || cn == "(encoding/binary.littleEndian).PutUint64" ||
						cn == "(encoding/binary.bigEndian).PutUint32" || cn == "(encoding/binary.bigEndian).PutUint64":
						if len(cc.Args) < 2 || !derivesFromValue(cc.Args[1], bp) {
							continue
						}
						need := int64(4)
						if strings.HasSuffix(cn, "64") {
							need = 8
						}
						k := key("W1-put")
						f := collectLenFacts(c, blk, bp)
						switch {
						case cc.Args[1] != ssa.Value(bp):
							b.und(k, c.InstrPos(x), "Put* into a derived slice: not an idiom this rule can bound")
						case !f.atLeast(need):
							b.bad(k, c.InstrPos(x), fmt.Sprintf("%s writes %d bytes with no dominating test that len(b) >= %d", name, need, need))
						case !f.shortOK:
							b.bad(k, c.InstrPos(x), fmt.Sprintf("the length test does not return io.ErrShortBuffer (%v)", f.badErr))
						default:
							b.ok(k, c.InstrPos(x), fmt.Sprintf("%d-byte write guarded by len(b) >= %d returning io.ErrShortBuffer", need, need))
						}
					case cn == "builtin:copy":
						if !derivesFromValue(cc.Args[0], bp) {
							continue
						}
						k := key("W2-copy")
						// the result must be compared with len(src) and the short side must produce io.ErrShortBuffer
						okCopy := false
						for _, ref := range *x.Referrers() {
							_ = ref
						}
						okCopy = copyResultChecked(x, cc.Args[1])
						if okCopy {
							b.ok(k, c.InstrPos(x), "copy result compared with len(src); short copy yields io.ErrShortBuffer")
						} else {
							b.bad(k, c.InstrPos(x), fmt.Sprintf("%s copies into the destination without detecting a short copy (result not compared with len(src) → io.ErrShortBuffer): a too-small buffer is silently truncated", name))
						}
					case cc.IsInvoke() && (cc.Method.Name() == "MarshalTo" || cc.Method.Name() == "Marshal"):
						if len(cc.Args) == 0 || !derivesFromValue(cc.Args[0], bp) {
							continue
						}
						k := key("W4-user")
						f := collectLenFacts(c, blk, bp)
						if len(f.geVals) > 0 && f.shortOK {
							b.ok(k, c.InstrPos(x), "delegation to the user method dominated by len(b) >= size")
						} else {
							b.bad(k, c.InstrPos(x), fmt.Sprintf("%s hands the destination to a user %s without first testing len(b) against the announced size", name, cc.Method.Name()))
						}
					}
				case *ssa.Slice:
					if x.High == nil || !derivesFromValue(x.X, bp) {
						continue
					}
					if _, isK := constInt(x.High); isK && x.Low == nil {
						continue
					}
					k := key("W3-window")
					if x.X != ssa.Value(bp) {
						b.und(k, c.InstrPos(x), "window of a derived slice")
						continue
					}
					hi, ok := x.High.(*ssa.BinOp)
					f := collectLenFacts(c, blk, bp)
					good := false
					if ok && hi.Op == token.ADD {
						for _, w := range f.windows {
							if (w[0] == x.Low && (hi.X == x.Low && hi.Y == w[1] || hi.Y == x.Low && hi.X == w[1])) ||
								(w[0] == hi.X && w[1] == hi.Y && x.Low == hi.X) {
								good = true
							}
						}
					}
					if x.Low == nil && f.geVals[x.High] {
						good = true // b[:size] after len(b) >= size
					}
					switch {
					case !good:
						b.bad(k, c.InstrPos(x), fmt.Sprintf("%s windows the destination b[lo:lo+size] with no dominating test (len(b)-lo) < size: a short buffer panics instead of returning io.ErrShortBuffer", name))
					case !f.shortOK:
						b.bad(k, c.InstrPos(x), fmt.Sprintf("the window test does not return io.ErrShortBuffer (%v)", f.badErr))
					default:
						b.ok(k, c.InstrPos(x), "window dominated by (len(b)-lo) < size → io.ErrShortBuffer")
					}
				}
			}
		}
	}
	return b.out
}

// copyResultChecked: n := copy(dst, src) is followed by a comparison of n with len(src) whose
// branch produces io.ErrShortBuffer.
func copyResultChecked(cp *ssa.Call, src ssa.Value) bool {
	uses := map[ssa.Value]bool{cp: true}
	// n may be stored into a named result / re-used through one φ or an assignment `offset = copy(...)`
	for _, ref := range *cp.Referrers() {
		if phi, ok := ref.(*ssa.Phi); ok {
			uses[phi] = true
		}
	}
	for v := range uses {
		for _, ref := range *v.Referrers() {
			bo, ok := ref.(*ssa.BinOp)
			if !ok {
				continue
			}
			other := bo.Y
			if other == v {
				other = bo.X
			}
			if !isLenLike(other, src) {
				continue
			}
			for _, r2 := range *bo.Referrers() {
				ifi, ok := r2.(*ssa.If)
				if !ok {
					continue
				}
				for _, s := range ifi.Block().Succs {
					if blockMentionsShortBuffer(s) {
						return true
					}
				}
			}
		}
	}
	return false
}

// isLenLike: v is len(x) where x is src or another load of the same captured variable / array.
func isLenLike(v ssa.Value, src ssa.Value) bool {
	call, ok := v.(*ssa.Call)
	if ok {
		if bi, ok := call.Common().Value.(*ssa.Builtin); ok && bi.Name() == "len" {
			a := call.Common().Args[0]
			return sameSource(a, src)
		}
	}
	// len of an array is folded to a constant
	if _, ok := constInt(v); ok {
		if sl, ok := src.(*ssa.Slice); ok {
			_ = sl
			return true
		}
	}
	return false
}

func sameSource(a, b ssa.Value) bool {
	if a == b {
		return true
	}
	ua, ok1 := a.(*ssa.UnOp)
	ub, ok2 := b.(*ssa.UnOp)
	if ok1 && ok2 && ua.Op == token.MUL && ub.Op == token.MUL {
		if ua.X == ub.X {
			return true
		}
		fa, okA := ua.X.(*ssa.FieldAddr)
		fb, okB := ub.X.(*ssa.FieldAddr)
		if okA && okB && fa.Field == fb.Field && fa.X == fb.X {
			return true
		}
	}
	return false
}
