package rules

import (
	"fmt"
	"go/token"
	"go/types"
	"sort"
	"strings"

	"golang.org/x/tools/go/ssa"

	"verif/checker/core"
)

// R-VALIDATE — syntax-only consumers go through the one validator, and the whole-input fast-path
// flags are only ever applied to the buffer they were computed from.
func init() {
	Register(&Rule{
		ID:    "R-VALIDATE",
		Doc:   "(i-iii) RawMessage / MarshalJSON bytes are emitted or stored only after a parseValue call whose error is tested (TrustRawMessage is the only bypass); (v) internal flags validAsciiPrint/noBackslash are set only in internalParseFlags under their predicate, every decoder's flags are public flags | internalParseFlags(buffer) and never inherit another decoder's internal bits, and a decoder applied to the unquoted (possibly fresh) buffer of parseStringUnquote has the internal bits cleared",
		Props: []string{"C05", "C02", "C01", "C14", "C11"},
		Min:   map[string]int{"C05": 8, "C02": 4, "C01": 2, "C14": 1, "C11": 1},
		Run:   runValidate,
	})
}

func jsonConst(c *core.Ctx, name string) uint64 {
	jp := c.Pkg("json")
	if jp == nil {
		return 0
	}
	k, _ := jp.Types.Scope().Lookup(name).(*types.Const)
	if k == nil {
		return 0
	}
	v, _ := constantUint(k)
	return v
}

// validatedSource: v is (a copy of) the first result of a parseValue call; returns the call.
func validatedSource(v ssa.Value, parseValue *ssa.Function) *ssa.Call {
	for i := 0; i < 6; i++ {
		switch x := v.(type) {
		case *ssa.Extract:
			if call, ok := x.Tuple.(*ssa.Call); ok && x.Index == 0 && staticCallee(call.Common()) == parseValue {
				return call
			}
			return nil
		case *ssa.ChangeType:
			v = x.X
		case *ssa.Convert:
			v = x.X
		case *ssa.Slice:
			v = x.X
		case *ssa.Call:
			// append(make(...), v...) : a copy of v
			if bi, ok := x.Common().Value.(*ssa.Builtin); ok && bi.Name() == "append" && len(x.Common().Args) == 2 {
				v = x.Common().Args[1]
				continue
			}
			return nil
		default:
			return nil
		}
	}
	return nil
}

func runValidate(c *core.Ctx) []core.Obligation {
	b := newOb(c, "R-VALIDATE")
	parseValue := c.Lookup("json.(decoder).parseValue")
	unquote := c.Lookup("json.(decoder).parseStringUnquote")
	ipf := c.Lookup("json.internalParseFlags")
	if parseValue == nil || unquote == nil || ipf == nil {
		b.addP([]string{"C05"}, core.Undecided, "anchors", "-", "parseValue / parseStringUnquote / internalParseFlags not found")
		return b.out
	}
	trust := jsonConst(c, "TrustRawMessage")
	internalBits := jsonConst(c, "validAsciiPrint") | jsonConst(c, "noBackslash")

	// ---- (i)(ii): emission of raw bytes
	emitCheck := func(fnKey string, props []string) {
		fn := c.Lookup(fnKey)
		key := "raw-validated:" + fnKey
		if fn == nil {
			b.addP(props, core.Undecided, key, "-", "function not found")
			return
		}
		bp := bufParam(fn)
		// permitting edges: TrustRawMessage set
		perm := map[edgeKey]bool{}
		for _, x := range fn.Blocks {
			if n := len(x.Instrs); n > 0 {
				if ifi, ok := x.Instrs[n-1].(*ssa.If); ok && trust != 0 {
					if set, ok := flagTest(ifi.Cond, trust); ok {
						if set {
							perm[edgeKey{x, x.Succs[0]}] = true
						} else {
							perm[edgeKey{x, x.Succs[1]}] = true
						}
					}
				}
			}
		}
		var problems []string
		nEmit := 0
		for _, blk := range fn.Blocks {
			for _, in := range blk.Instrs {
				call, ok := in.(*ssa.Call)
				if !ok {
					continue
				}
				var src ssa.Value
				if bi, ok := call.Common().Value.(*ssa.Builtin); ok && bi.Name() == "append" && len(call.Common().Args) == 2 && derivesFromValue(call.Common().Args[0], bp) {
					src = call.Common().Args[1]
				} else if f := staticCallee(call.Common()); f != nil && c.InRepo(f) && len(call.Common().Args) >= 2 && call.Common().Args[0] == ssa.Value(bp) && isByteSliceType(call.Common().Args[1].Type()) {
					src = call.Common().Args[1]
				}
				if src == nil {
					continue
				}
				if _, isConst := src.(*ssa.Const); isConst {
					continue // "null"
				}
				if cv, ok := src.(*ssa.Convert); ok {
					if _, isConst := cv.X.(*ssa.Const); isConst {
						continue
					}
				}
				nEmit++
				// every unpermitted flow into src must be a validated value whose error was tested
				var check func(v ssa.Value, at *ssa.BasicBlock, seen map[ssa.Value]bool)
				check = func(v ssa.Value, at *ssa.BasicBlock, seen map[ssa.Value]bool) {
					if seen[v] {
						return
					}
					seen[v] = true
					if phi, ok := v.(*ssa.Phi); ok {
						for i, e := range phi.Edges {
							pred := phi.Block().Preds[i]
							if perm[edgeKey{pred, phi.Block()}] {
								continue
							}
							// the value assigned on a permitted branch reaches the φ through that branch's last block
							if permittedBlock(pred, perm) {
								continue
							}
							check(e, pred, seen)
						}
						return
					}
					if vals, ok := localStored(v); ok {
						for _, s := range vals {
							check(s, at, seen)
						}
						return
					}
					pc := validatedSource(v, parseValue)
					if pc == nil {
						problems = append(problems, fmt.Sprintf("%s emits %s at %s, which is not the value returned by parseValue", fnKey, describeValue(v), c.InstrPos(call)))
						return
					}
					// the error of that parse must be tested and the emission unreachable from its non-nil edge
					if !parseErrorGuards(pc, blk) {
						problems = append(problems, fmt.Sprintf("%s emits the bytes parsed at %s without testing the validator's error first", fnKey, c.InstrPos(pc)))
					}
				}
				check(src, blk, map[ssa.Value]bool{})
			}
		}
		switch {
		case nEmit == 0:
			b.addP(props, core.Undecided, key, c.FuncPos(fn), "no emission of the raw bytes found")
		case len(problems) > 0:
			sort.Strings(problems)
			b.addP(props, core.Violation, key, c.FuncPos(fn), problems[0]+": a document that Valid rejects can be emitted")
		default:
			b.addP(props, core.Discharged, key, c.FuncPos(fn), fmt.Sprintf("%d emission(s), each of bytes returned by a parseValue call whose error is tested (TrustRawMessage is the only bypass)", nEmit))
		}
	}
	emitCheck("json.(encoder).encodeRawMessage", []string{"C05", "C01", "C14"})
	emitCheck("json.(encoder).encodeJSONMarshaler", []string{"C05", "C01", "C14"})

	// ---- (iii): decodeRawMessage stores only validated bytes
	if fn := c.Lookup("json.(decoder).decodeRawMessage"); fn != nil {
		key := "raw-validated:json.(decoder).decodeRawMessage"
		dst := dataParam(fn)
		bad := ""
		n := 0
		for _, blk := range fn.Blocks {
			for _, in := range blk.Instrs {
				st, ok := in.(*ssa.Store)
				if !ok || !derivesFromValue(st.Addr, dst) {
					continue
				}
				n++
				for _, o := range origins(st.Val) {
					pc := validatedSource(o, parseValue)
					if pc == nil {
						bad = fmt.Sprintf("stores %s, which is not the value returned by parseValue", describeValue(o))
					} else if !parseErrorGuards(pc, blk) {
						bad = "stores the parsed bytes without testing the validator's error first"
					}
				}
			}
		}
		switch {
		case n == 0:
			b.addP([]string{"C05", "C02"}, core.Undecided, key, c.FuncPos(fn), "no store to the destination found")
		case bad != "":
			b.addP([]string{"C05", "C02"}, core.Violation, key, c.FuncPos(fn), "decodeRawMessage "+bad+": an invalid document is accepted into a RawMessage")
		default:
			b.addP([]string{"C05", "C02"}, core.Discharged, key, c.FuncPos(fn), "the RawMessage stored is the value validated by parseValue, after its error test")
		}
	} else {
		b.addP([]string{"C05", "C02"}, core.Undecided, "raw-validated:json.(decoder).decodeRawMessage", "-", "function not found")
	}

	// ---- (v.a) noBackslash is set only under bytes.IndexByte(b, '\\') == -1 inside internalParseFlags
	{
		nb := jsonConst(c, "noBackslash")
		key := "flag-provenance:noBackslash"
		good, sites := true, 0
		where := ""
		for _, fn := range c.RepoFunctions() {
			if !strings.HasPrefix(shortName(fn), "json.") {
				continue
			}
			for _, blk := range fn.Blocks {
				for _, in := range blk.Instrs {
					bo, ok := in.(*ssa.BinOp)
					if !ok || bo.Op != token.OR || !namedTypeIs(bo.Type(), "json", "ParseFlags") {
						continue
					}
					k, ok := constUint(bo.Y)
					if !ok || k&nb == 0 {
						continue
					}
					sites++
					okSite := false
					if fn == ipf {
						for _, e := range dominatingEdges(blk) {
							cmp, ok := e.ifi.Cond.(*ssa.BinOp)
							if !ok {
								continue
							}
							call, isCall := cmp.X.(*ssa.Call)
							kk, isK := constInt(cmp.Y)
							if isCall && isK && kk == -1 && calleeName(call.Common()) == "bytes.IndexByte" {
								if bs, ok := constInt(call.Common().Args[1]); ok && bs == '\\' {
									if (cmp.Op == token.EQL && e.succ == 0) || (cmp.Op == token.NEQ && e.succ == 1) {
										okSite = true
									}
								}
							}
							if isCall && isK && kk == 0 && calleeName(call.Common()) == "bytes.IndexByte" && cmp.Op == token.LSS && e.succ == 0 {
								if bs, ok := constInt(call.Common().Args[1]); ok && bs == '\\' {
									okSite = true
								}
							}
						}
					}
					if !okSite {
						good = false
						where = c.InstrPos(bo)
					}
				}
			}
		}
		switch {
		case sites == 0:
			b.addP([]string{"C05", "C02", "C14"}, core.Undecided, key, c.FuncPos(ipf), "noBackslash is never set")
		case !good:
			b.addP([]string{"C05", "C02", "C14"}, core.Violation, key, where, "noBackslash is OR-ed into a flags value outside the branch where bytes.IndexByte(b, '\\\\') found nothing: strings then skip escape processing on input that contains backslashes")
		default:
			b.addP([]string{"C05", "C02", "C14"}, core.Discharged, key, c.FuncPos(ipf), "set only in internalParseFlags on the branch bytes.IndexByte(b, '\\\\') == -1")
		}
	}

	// ---- (v.b) every decoder's flags are fresh for its buffer
	{
		n := 0
		for _, fn := range c.RepoFunctions() {
			if !strings.HasPrefix(shortName(fn), "json.") || fn.Synthetic != "" {
				continue
			}
			for _, blk := range fn.Blocks {
				for _, in := range blk.Instrs {
					st, ok := in.(*ssa.Store)
					if !ok {
						continue
					}
					fa, ok := st.Addr.(*ssa.FieldAddr)
					if !ok || fieldAddrID(fa) != "json.decoder.flags" {
						continue
					}
					n++
					key := fmt.Sprintf("flag-freshness:%s", shortName(fn))
					var bads []string
					var leaves func(v ssa.Value, masked bool, depth int)
					leaves = func(v ssa.Value, masked bool, depth int) {
						if depth > 8 {
							return
						}
						switch x := v.(type) {
						case *ssa.BinOp:
							switch x.Op {
							case token.OR:
								leaves(x.X, masked, depth+1)
								leaves(x.Y, masked, depth+1)
								return
							case token.AND_NOT:
								if k, ok := constUint(x.Y); ok && k&internalBits == internalBits {
									leaves(x.X, true, depth+1)
									return
								}
							case token.AND:
								if k, ok := constUint(x.Y); ok && k&internalBits == 0 {
									leaves(x.X, true, depth+1)
									return
								}
							}
						case *ssa.Call:
							if staticCallee(x.Common()) == ipf {
								return
							}
							nm := calleeName(x.Common())
							if strings.HasSuffix(nm, "ParseFlags).withKind") {
								leaves(x.Common().Args[0], masked, depth+1)
								return
							}
						case *ssa.Const, *ssa.Parameter:
							return
						case *ssa.Phi:
							for _, e := range x.Edges {
								leaves(e, masked, depth+1)
							}
							return
						case *ssa.UnOp:
							if f, ok := fieldOfLoad(x); ok {
								switch f {
								case "json.Decoder.flags":
									return // public flags of the streaming Decoder
								case "json.decoder.flags":
									if masked {
										return
									}
									bads = append(bads, "the flags of another/previous decoder value (which may carry validAsciiPrint/noBackslash computed for a different buffer)")
									return
								}
							}
						}
						bads = append(bads, describeValue(v))
					}
					// t.flags = t.flags.withKind(k): the same decoder keeps its bits for the same buffer,
					// only the kind byte changes
					if call, ok := st.Val.(*ssa.Call); ok && strings.HasSuffix(calleeName(call.Common()), "ParseFlags).withKind") {
						if ld, ok := call.Common().Args[0].(*ssa.UnOp); ok {
							if lfa, ok := ld.X.(*ssa.FieldAddr); ok && fieldAddrID(lfa) == "json.decoder.flags" && sameBase(lfa.X, fa.X) {
								b.addP([]string{"C05", "C02", "C11", "C14"}, core.Discharged, key, c.InstrPos(st), "kind byte update of the same decoder (same buffer)")
								continue
							}
						}
					}
					leaves(st.Val, false, 0)
					if len(bads) > 0 {
						b.addP([]string{"C05", "C02", "C11", "C14"}, core.Violation, key, c.InstrPos(st), fmt.Sprintf("%s builds a decoder's flags from %s: internal fast-path bits survive onto a buffer they were not computed from, so string scanning skips checks the new bytes need", shortName(fn), strings.Join(bads, ", ")))
					} else {
						b.addP([]string{"C05", "C02", "C11", "C14"}, core.Discharged, key, c.InstrPos(st), "flags = public flags | internalParseFlags(buffer)")
					}
				}
			}
		}
		if n == 0 {
			b.addP([]string{"C05"}, core.Undecided, "flag-freshness", "-", "no decoder flags assignment found")
		}
		// the streaming Decoder's public flags never receive internal bits
		bad := ""
		for _, fn := range c.RepoFunctions() {
			if !strings.HasPrefix(shortName(fn), "json.") {
				continue
			}
			for _, blk := range fn.Blocks {
				for _, in := range blk.Instrs {
					st, ok := in.(*ssa.Store)
					if !ok {
						continue
					}
					fa, ok := st.Addr.(*ssa.FieldAddr)
					if !ok || fieldAddrID(fa) != "json.Decoder.flags" {
						continue
					}
					okStore := false
					if bo, isB := st.Val.(*ssa.BinOp); isB && bo.Op == token.OR {
						if k, isK := constUint(bo.Y); isK && k&internalBits == 0 && loadOfField(bo.X, "json.Decoder.flags") {
							okStore = true
						}
					}
					if !okStore {
						bad = c.InstrPos(st)
					}
				}
			}
		}
		if bad != "" {
			b.addP([]string{"C05", "C11", "C02", "C14"}, core.Violation, "flag-freshness:Decoder.flags", bad, "Decoder.flags is assigned something other than its old value OR a public flag constant")
		} else {
			b.addP([]string{"C05", "C11", "C02", "C14"}, core.Discharged, "flag-freshness:Decoder.flags", "-", "Decoder.flags only ever ORs public flag constants")
		}
	}

	// ---- (v.b2) the whole-input flags are computed over (at least) the text that is parsed with them
	if ipf := c.Lookup("json.internalParseFlags"); ipf != nil {
		for _, fn := range c.RepoFunctions() {
			if fn.Blocks == nil || fn.Synthetic != "" || !strings.HasPrefix(shortName(fn), "json.") {
				continue
			}
			var scanned []ssa.Value
			for _, ci := range callsIn(fn) {
				if staticCallee(ci.Common()) == ipf && len(ci.Common().Args) == 1 {
					scanned = append(scanned, ci.Common().Args[0])
				}
			}
			if len(scanned) == 0 {
				continue
			}
			var covers func(p ssa.Value) bool
			covers = func(p ssa.Value) bool {
				for _, f := range scanned {
					if p == f {
						return true
					}
				}
				// a suffix of scanned text is scanned text: skipSpaces(x), skipSpacesN(x)#0, x[i:]
				switch x := p.(type) {
				case *ssa.Call:
					if f := staticCallee(x.Common()); f != nil && strings.HasPrefix(f.Name(), "skipSpaces") && len(x.Common().Args) == 1 {
						if covers(x.Common().Args[0]) {
							return true
						}
					}
				case *ssa.Extract:
					if call, ok := x.Tuple.(*ssa.Call); ok && x.Index == 0 {
						if f := staticCallee(call.Common()); f != nil && strings.HasPrefix(f.Name(), "skipSpaces") && len(call.Common().Args) == 1 {
							if covers(call.Common().Args[0]) {
								return true
							}
						}
					}
				case *ssa.Slice:
					if covers(x.X) {
						return true
					}
				case *ssa.Phi:
					all := len(x.Edges) > 0
					for _, e := range x.Edges {
						if e != ssa.Value(x) && !covers(e) {
							all = false
						}
					}
					if all {
						return true
					}
				}
				for _, f := range scanned {
					if p == f || sameSource(p, f) || derivesFromValue(p, f) {
						return true
					}
					fp, ok1 := fieldOfLoad(p)
					ff, ok2 := fieldOfLoad(f)
					if ok1 && ok2 && fp == ff {
						return true
					}
				}
				return false
			}
			n, bad := 0, ""
			for _, ci := range callsIn(fn) {
				cc := ci.Common()
				hasDecoder := false
				var bufs []ssa.Value
				for _, a := range cc.Args {
					if namedKey(a.Type()) == "json.decoder" {
						hasDecoder = true
					}
					if sl, ok := a.Type().Underlying().(*types.Slice); ok {
						if bt, ok := sl.Elem().Underlying().(*types.Basic); ok && bt.Kind() == types.Uint8 {
							bufs = append(bufs, a)
						}
					}
				}
				if !hasDecoder || staticCallee(cc) == ipf {
					continue
				}
				for _, p := range bufs {
					n++
					if !covers(p) {
						bad = c.InstrPos(ci)
					}
				}
			}
			key := "flag-scope:" + shortName(fn)
			switch {
			case bad != "":
				b.addP([]string{"C05", "C02", "C11"}, core.Violation, key, bad, fmt.Sprintf("%s parses a buffer with whole-input flags (noBackslash, validAsciiPrint) that were computed over a different, smaller piece of text: a backslash or control character in the part that was not scanned is missed by the string fast paths", shortName(fn)))
			case n == 0:
				b.addP([]string{"C05", "C02", "C11"}, core.Discharged, key, c.FuncPos(fn), "flags are computed here and stored with the text they describe; no parse call in this function")
			default:
				b.addP([]string{"C05", "C02", "C11"}, core.Discharged, key, c.FuncPos(fn), fmt.Sprintf("%d parse call(s), each on the text the flags were computed over (or a part of it)", n))
			}
		}
	}

	// ---- (v.c) a decoder applied to the unquoted buffer has the internal bits cleared
	{
		var fns []*ssa.Function
		for _, fn := range c.RepoFunctions() {
			if fn.Blocks != nil && strings.HasPrefix(shortName(fn), "json.") {
				fns = append(fns, fn)
			}
		}
		a := &inputRO{c: c}
		a.compute(fns)
		sites := 0
		for _, fn := range fns {
			for _, ci := range callsIn(fn) {
				uq, ok := ci.(*ssa.Call)
				if !ok || staticCallee(uq.Common()) != unquote {
					continue
				}
				var v ssa.Value
				for _, ref := range *uq.Referrers() {
					if ex, ok := ref.(*ssa.Extract); ok && ex.Index == 0 {
						v = ex
					}
				}
				if v == nil {
					continue
				}
				d := a.derived(fn, v)
				for _, cj := range callsIn(fn) {
					call, ok := cj.(*ssa.Call)
					if !ok || call == uq {
						continue
					}
					var dec ssa.Value
					passes := false
					for _, arg := range call.Common().Args {
						if namedKey(arg.Type()) == "json.decoder" {
							dec = arg
						}
						if d[arg] {
							passes = true
						}
					}
					if dec == nil || !passes {
						continue
					}
					if onFailingPath(call.Block()) {
						continue // already failing: only the error message depends on it
					}
					if f := staticCallee(call.Common()); f != nil && f.Name() == "inputError" {
						continue
					}
					sites++
					key := fmt.Sprintf("unquoted-buffer-decoder:%s", shortName(fn))
					if decoderInternalCleared(dec, call, internalBits) {
						b.addP([]string{"C05", "C02"}, core.Discharged, key, c.InstrPos(call), "the decoder applied to the unquoted buffer has validAsciiPrint/noBackslash cleared")
					} else {
						b.addP([]string{"C05", "C02"}, core.Violation, key, c.InstrPos(call), fmt.Sprintf("%s decodes the unquoted text returned by parseStringUnquote (a different, possibly fresh buffer) with the outer input's decoder: its validAsciiPrint/noBackslash bits were computed for the quoted input, so e.g. a raw control byte produced by a \\\\u escape is accepted inside the inner string", shortName(fn)))
					}
				}
			}
		}
		if sites == 0 {
			b.addP([]string{"C05", "C02"}, core.Undecided, "unquoted-buffer-decoder", "-", "no decoder applied to an unquoted buffer found: the ,string decoders are no longer recognised")
		}
	}
	return b.out
}

// permittedBlock: every path from the entry to blk crosses a permitting edge.
func permittedBlock(blk *ssa.BasicBlock, perm map[edgeKey]bool) bool {
	seen := map[*ssa.BasicBlock]bool{}
	var walk func(x *ssa.BasicBlock) bool
	walk = func(x *ssa.BasicBlock) bool {
		if x == blk {
			return true
		}
		if seen[x] {
			return false
		}
		seen[x] = true
		for _, s := range x.Succs {
			if !perm[edgeKey{x, s}] && walk(s) {
				return true
			}
		}
		return false
	}
	return !walk(blk.Parent().Blocks[0])
}

// parseErrorGuards: the error result of call pc is nil-tested and blk is not reachable from the
// non-nil edge of that test.
func parseErrorGuards(pc *ssa.Call, blk *ssa.BasicBlock) bool {
	var errv ssa.Value
	n := pc.Common().Signature().Results().Len()
	for _, ref := range *pc.Referrers() {
		if ex, ok := ref.(*ssa.Extract); ok && ex.Index == n-1 {
			errv = ex
		}
	}
	if errv == nil {
		return false
	}
	var merged, direct []*ssa.BasicBlock
	for _, x := range pc.Parent().Blocks {
		m := len(x.Instrs)
		if m == 0 {
			continue
		}
		ifi, ok := x.Instrs[m-1].(*ssa.If)
		if !ok {
			continue
		}
		bo, ok := ifi.Cond.(*ssa.BinOp)
		if !ok || !((carriesErr(bo.X, errv, 0) && isNilConst(bo.Y)) || (carriesErr(bo.Y, errv, 0) && isNilConst(bo.X))) {
			continue
		}
		if bo.X != errv && bo.Y != errv {
			// a merged error: err = parse error, or a further complaint raised only when the
			// parse succeeded
			merged = append(merged, x)
		} else {
			direct = append(direct, x)
		}
	}
	nonNilSucc := func(x *ssa.BasicBlock) *ssa.BasicBlock {
		bo := x.Instrs[len(x.Instrs)-1].(*ssa.If).Cond.(*ssa.BinOp)
		if bo.Op == token.EQL {
			return x.Succs[1]
		}
		return x.Succs[0]
	}
	// paths on which the parse error is non-nil cannot take the nil side of a later test of a
	// merged error that carries it
	pruned := func(from *ssa.BasicBlock, i int) bool {
		for _, mb := range merged {
			if mb == from {
				return from.Succs[i] != nonNilSucc(from)
			}
		}
		return false
	}
	if len(direct) > 0 {
		return !reachablePruned(nonNilSucc(direct[0]), pruned)[blk]
	}
	for _, x := range merged {
		if !reachableFrom(nonNilSucc(x), nil)[blk] {
			return true
		}
	}
	return false
}

// carriesErr: v is errv, or a φ each of whose inputs is errv or a value assigned where errv was
// already known to be nil (err = parse error; if err == nil && trailing data { err = ... }).
func carriesErr(v, errv ssa.Value, depth int) bool {
	if v == errv {
		return true
	}
	phi, ok := v.(*ssa.Phi)
	if !ok || depth > 3 {
		return false
	}
	has := false
	for i, e := range phi.Edges {
		if carriesErr(e, errv, depth+1) {
			has = true
			continue
		}
		// assigned under errv == nil?
		under := false
		for _, de := range dominatingEdges(phi.Block().Preds[i]) {
			bo, ok := de.ifi.Cond.(*ssa.BinOp)
			if !ok || !((bo.X == errv && isNilConst(bo.Y)) || (bo.Y == errv && isNilConst(bo.X))) {
				continue
			}
			if (bo.Op == token.EQL && de.succ == 0) || (bo.Op == token.NEQ && de.succ == 1) {
				under = true
			}
		}
		if !under {
			return false
		}
	}
	return has
}

// onFailingPath: blk is dominated by the non-nil edge of an error test.
func onFailingPath(blk *ssa.BasicBlock) bool {
	for _, e := range dominatingEdges(blk) {
		bo, ok := e.ifi.Cond.(*ssa.BinOp)
		if !ok {
			continue
		}
		var v ssa.Value
		if isNilConst(bo.Y) {
			v = bo.X
		} else if isNilConst(bo.X) {
			v = bo.Y
		}
		if v == nil || !isErrorType(v.Type()) {
			continue
		}
		if (bo.Op == token.NEQ && e.succ == 0) || (bo.Op == token.EQL && e.succ == 1) {
			return true
		}
	}
	return false
}

// decoderInternalCleared: the decoder value passed at `at` is loaded from a local whose flags
// field was assigned `... &^ K` (K including both internal bits) on every path to the call.
func decoderInternalCleared(dec ssa.Value, at *ssa.Call, internalBits uint64) bool {
	// decoder{}: the zero decoder carries no flag at all
	if k, isK := dec.(*ssa.Const); isK && k.Value == nil {
		return true
	}
	if l0, isLd := dec.(*ssa.UnOp); isLd && l0.Op == token.MUL {
		if al, isAl := l0.X.(*ssa.Alloc); isAl {
			zero := true
			for _, ref := range *al.Referrers() {
				switch x := ref.(type) {
				case *ssa.Store:
					if k, isK := x.Val.(*ssa.Const); !isK || k.Value != nil {
						zero = false
					}
				case *ssa.UnOp:
				default:
					zero = false
				}
			}
			if zero {
				return true
			}
		}
	}
	ld, ok := dec.(*ssa.UnOp)
	if !ok || ld.Op != token.MUL {
		return false
	}
	cell := cellOf(ld.X)
	if cell == nil {
		return false
	}
	for _, blk := range at.Parent().Blocks {
		for _, in := range blk.Instrs {
			st, ok := in.(*ssa.Store)
			if !ok {
				continue
			}
			fa, ok := st.Addr.(*ssa.FieldAddr)
			if !ok || cellOf(fa.X) != cell || fieldAddrID(fa) != "json.decoder.flags" {
				continue
			}
			bo, ok := st.Val.(*ssa.BinOp)
			if !ok {
				continue
			}
			cleared := false
			switch bo.Op {
			case token.AND_NOT:
				if k, ok := constUint(bo.Y); ok && k&internalBits == internalBits {
					cleared = true
				}
			case token.AND:
				if k, ok := constUint(bo.Y); ok && k&internalBits == 0 {
					cleared = true
				}
			}
			if cleared && instrDominates(st, at) {
				return true
			}
		}
	}
	return false
}

// sameBase: two address expressions denote the same object (same SSA value, or the same field path
// from the same root).
func sameBase(a, b ssa.Value) bool {
	if a == b {
		return true
	}
	fa, ok1 := a.(*ssa.FieldAddr)
	fb, ok2 := b.(*ssa.FieldAddr)
	if ok1 && ok2 && fa.Field == fb.Field {
		return sameBase(fa.X, fb.X)
	}
	return false
}

// reachablePruned: blocks reachable from b without taking the edges (from, i-th successor) for
// which pruned reports true.
func reachablePruned(b *ssa.BasicBlock, pruned func(from *ssa.BasicBlock, i int) bool) map[*ssa.BasicBlock]bool {
	seen := map[*ssa.BasicBlock]bool{}
	var walk func(*ssa.BasicBlock)
	walk = func(x *ssa.BasicBlock) {
		if seen[x] {
			return
		}
		seen[x] = true
		for i, s := range x.Succs {
			if pruned(x, i) {
				continue
			}
			walk(s)
		}
	}
	walk(b)
	return seen
}
