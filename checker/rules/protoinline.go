package rules

import (
	"fmt"
	"go/token"
	"sort"
	"strings"

	"golang.org/x/tools/go/ssa"

	"verif/checker/core"
)

// R-INLINE — proto's size and encode functions receive the address of a value, except under the
// inline flag, where a pointer-shaped value (a pointer, a map, a struct of one pointer field
// passed by value) arrives as the pointer itself. Every function that follows a pointer found at
// p therefore tests the flag first: if !flags.has(inline) { p = *(*unsafe.Pointer)(p) }. A sibling
// that dereferences unconditionally reads the first word of the pointee under inline — a non-nil
// pointer to an empty message looks nil, or garbage is followed.
func init() {
	Register(&Rule{
		ID:    "R-INLINE",
		Doc:   "sibling agreement of proto's size/encode-direction functions (name or enclosing constructor contains Size or Encode, plus structField.present) that take (p unsafe.Pointer, flags flags): every load of a pointer from p itself (*(*unsafe.Pointer)(p)) is dominated by the false edge of flags.has(inline); the functions that never see an inlined value (decoders) are out of scope",
		Props: []string{"C03", "C12"},
		Min:   map[string]int{"C03": 4, "C12": 4},
		Run:   runInline,
	})
	Register(&Rule{
		ID:    "R-DECODESTORE",
		Doc:   "every decode function of a proto scalar codec literal stores the decoded value into the destination on every path that returns without an error: a store guarded by a test on the decoded value itself (skip the store of an empty string, of a zero) whose other branch also returns success leaves the destination as an earlier occurrence of the field set it — in protobuf the last occurrence of a singular field wins, an explicit empty value included",
		Props: []string{"C12", "C03"},
		Min:   map[string]int{"C12": 8},
		Run:   runDecodeStore,
	})
	Register(&Rule{
		ID:    "R-FLAGXFORM",
		Doc:   "sibling agreement of proto's scalar codecs: the size function and the encode function of one codec literal apply the same flag-dependent transformations to the value (the set of proto.flags methods they call on their flags parameter, e.g. flags.uint64 for the zig-zag option): a size computed without the transformation that the encoder applies disagrees with the bytes written (short buffer, or zero padding) for zig-zag tagged fields",
		Props: []string{"C03", "C16", "C12"},
		Min:   map[string]int{"C03": 3},
		Run:   runFlagXform,
	})
}

func runInline(c *core.Ctx) []core.Obligation {
	b := newOb(c, "R-INLINE", "C03", "C12")
	inlineV, ok := protoConst(c, "inline")
	if !ok {
		b.und("inline:-", "-", "proto.inline not found")
		return b.out
	}
	fns := c.RepoFunctions()
	sort.Slice(fns, func(i, j int) bool { return shortName(fns[i]) < shortName(fns[j]) })
	n := 0
	for _, fn := range fns {
		if fn.Blocks == nil || fn.Pkg == nil || fn.Pkg.Pkg.Name() != "proto" || fn.Synthetic != "" {
			continue
		}
		scopeName := fn.Name()
		if fn.Parent() != nil {
			scopeName = fn.Parent().Name()
		}
		ln := strings.ToLower(scopeName)
		if !(strings.Contains(ln, "size") || strings.Contains(ln, "encode") || scopeName == "present") || strings.Contains(ln, "decode") {
			continue
		}
		var ptr, fl *ssa.Parameter
		for _, p := range fn.Params {
			switch {
			case p.Type().String() == "unsafe.Pointer" && ptr == nil:
				ptr = p
			case strings.HasSuffix(p.Type().String(), "proto.flags"):
				fl = p
			}
		}
		if ptr == nil || fl == nil {
			continue
		}
		count := 0
		for _, blk := range fn.Blocks {
			for _, in := range blk.Instrs {
				ld, ok := in.(*ssa.UnOp)
				if !ok || ld.Op != token.MUL || ld.Type().String() != "unsafe.Pointer" {
					continue
				}
				// the address is the parameter itself (possibly reassigned: a φ of p and *p is not p)
				if stripConv(ld.X) != ssa.Value(ptr) {
					continue
				}
				n++
				count++
				key := fmt.Sprintf("inline:%s#%d", closureIndex.ReplaceAllString(shortName(fn), ""), count)
				guarded := false
				for _, e := range dominatingEdges(blk) {
					cond := e.ifi.Cond
					succ := e.succ
					if not, isNot := cond.(*ssa.UnOp); isNot && not.Op == token.NOT {
						cond = not.X
						succ = 1 - succ
					}
					call, isCall := cond.(*ssa.Call)
					if !isCall || !strings.HasSuffix(calleeName(call.Common()), "flags).has") || len(call.Call.Args) != 2 {
						continue
					}
					if k, isK := constInt(call.Call.Args[1]); isK && k == inlineV && succ == 1 {
						guarded = true
					}
				}
				if guarded {
					b.ok(key, c.InstrPos(ld), "the pointer at p is followed only when the value is not inlined")
				} else {
					b.bad(key, c.InstrPos(ld), fmt.Sprintf("%s loads a pointer from p without testing flags.has(inline), unlike its siblings: when the value arrives inlined (a struct with a single pointer field passed by value to Marshal or Size) p already is that pointer, and the load reads the first word of what it points to — a non-nil pointer to an empty message is taken for nil and dropped", shortName(fn)))
				}
			}
		}
	}
	// the same question for the codecs that hand p to reflect.NewAt(t, p) as the address of the
	// value (Message and custom types): under inline, p is the value's only word, not its address
	for _, fn := range fns {
		if fn.Blocks == nil || fn.Pkg == nil || fn.Pkg.Pkg.Name() != "proto" || fn.Synthetic != "" || fn.Parent() == nil {
			continue
		}
		ln := strings.ToLower(fn.Parent().Name())
		if !(strings.Contains(ln, "size") || strings.Contains(ln, "encode")) || strings.Contains(ln, "decode") {
			continue
		}
		var ptr, fl *ssa.Parameter
		for _, p := range fn.Params {
			switch {
			case p.Type().String() == "unsafe.Pointer" && ptr == nil:
				ptr = p
			case strings.HasSuffix(p.Type().String(), "proto.flags"):
				fl = p
			}
		}
		if ptr == nil || fl == nil {
			continue
		}
		count := 0
		for _, ci := range callsIn(fn) {
			if calleeName(ci.Common()) != "reflect.NewAt" || len(ci.Common().Args) != 2 {
				continue
			}
			fromParam := false
			adapted := false
			for _, o := range origins(ci.Common().Args[1]) {
				if o == ssa.Value(ptr) {
					fromParam = true
				} else {
					adapted = true
				}
			}
			if !fromParam {
				continue
			}
			n++
			count++
			key := fmt.Sprintf("inline:%s:newat#%d", closureIndex.ReplaceAllString(shortName(fn), ""), count)
			if adapted {
				b.ok(key, c.InstrPos(ci), "the address handed to reflect.NewAt is adapted when the value is inlined")
			} else {
				b.bad(key, c.InstrPos(ci), fmt.Sprintf("%s hands p to reflect.NewAt as the address of the value whatever the inline flag says: for a pointer-shaped struct passed by value (type PM struct{ P *int } implementing Message) p is the struct's only word — the pointer P itself — and the methods are called on whatever P points to: Size(PM{P: &five}) dereferences nil", shortName(fn)))
			}
		}
	}
	if n == 0 {
		b.und("inline:-", "-", "no load of a pointer from p found in proto's size/encode functions")
	}
	return b.out
}

func runFlagXform(c *core.Ctx) []core.Obligation {
	b := newOb(c, "R-FLAGXFORM", "C03", "C16", "C12")
	// codec literals: package-level variables of type proto.codec whose size and encode fields are
	// initialised with functions; found through the stores of the package initialiser
	pp := c.Pkg("proto")
	if pp == nil {
		b.und("flagxform:-", "-", "package proto not loaded")
		return b.out
	}
	type pair struct{ size, encode, decode *ssa.Function }
	pairs := map[string]*pair{}
	for _, fn := range c.RepoFunctions() {
		if fn.Pkg == nil || fn.Pkg.Pkg.Name() != "proto" || fn.Name() != "init" || fn.Blocks == nil {
			continue
		}
		for _, blk := range fn.Blocks {
			for _, in := range blk.Instrs {
				st, ok := in.(*ssa.Store)
				if !ok {
					continue
				}
				fa, ok := st.Addr.(*ssa.FieldAddr)
				if !ok {
					continue
				}
				g, ok := fa.X.(*ssa.Global)
				if !ok || !strings.HasSuffix(g.Type().String(), "proto.codec") {
					continue
				}
				f, ok := st.Val.(*ssa.Function)
				if !ok {
					if mc, isMC := st.Val.(*ssa.MakeClosure); isMC {
						f, _ = mc.Fn.(*ssa.Function)
					}
				}
				if f == nil {
					continue
				}
				if pairs[g.Name()] == nil {
					pairs[g.Name()] = &pair{}
				}
				switch fieldNameOf(fa) {
				case "size":
					pairs[g.Name()].size = f
				case "encode":
					pairs[g.Name()].encode = f
				case "decode":
					pairs[g.Name()].decode = f
				}
			}
		}
	}
	xforms := func(fn *ssa.Function) []string {
		set := map[string]bool{}
		for _, ci := range callsIn(fn) {
			n := calleeName(ci.Common())
			i := strings.LastIndex(n, "flags).")
			if i < 0 || len(ci.Common().Args) == 0 {
				continue
			}
			m := n[i+len("flags)."):]
			if m == "has" || m == "with" || m == "without" {
				continue // tests and propagation are R-FLAGPASS's and R-SIZEENC's
			}
			set[m] = true
		}
		var out []string
		for k := range set {
			out = append(out, k)
		}
		sort.Strings(out)
		return out
	}
	var names []string
	for n := range pairs {
		names = append(names, n)
	}
	sort.Strings(names)
	n := 0
	for _, name := range names {
		p := pairs[name]
		if p.size == nil || p.encode == nil {
			continue
		}
		n++
		key := "flagxform:" + name
		sx, ex := xforms(p.size), xforms(p.encode)
		// the decoder undoes what the encoder did: when the encoder's value depends on the flags
		// (zig-zag), so does the decoder's
		if p.decode != nil && len(ex) > 0 && len(xforms(p.decode)) == 0 {
			b.bad(key+":decode", c.FuncPos(p.decode), fmt.Sprintf("%s applies the flag-dependent transformations %v, %s applies none: a field tagged zigzag is written zig-zag encoded and read back as a plain varint — the reference bytes 08 05 decode to 5 where the message says -3", p.encode.Name(), ex, p.decode.Name()))
		}
		if strings.Join(sx, ",") == strings.Join(ex, ",") {
			b.ok(key, c.FuncPos(p.size), fmt.Sprintf("%s and %s apply the same flag-dependent transformations %v", p.size.Name(), p.encode.Name(), sx))
		} else {
			b.bad(key, c.FuncPos(p.size), fmt.Sprintf("%s applies the flag-dependent transformations %v to the value, %s applies %v: for a field tagged zigzag the size is computed for another number than the one written — Marshal fails with a short buffer (or pads with zero bytes) and Size differs from len(Marshal)", p.size.Name(), sx, p.encode.Name(), ex))
		}
	}
	if n == 0 {
		b.und("flagxform:-", "-", "no codec literal with size and encode functions found")
	}
	return b.out
}

func runDecodeStore(c *core.Ctx) []core.Obligation {
	b := newOb(c, "R-DECODESTORE", "C12", "C03")
	decs := map[string]*ssa.Function{}
	for _, fn := range c.RepoFunctions() {
		if fn.Pkg == nil || fn.Pkg.Pkg.Name() != "proto" || fn.Name() != "init" || fn.Blocks == nil {
			continue
		}
		for _, blk := range fn.Blocks {
			for _, in := range blk.Instrs {
				st, ok := in.(*ssa.Store)
				if !ok {
					continue
				}
				fa, ok := st.Addr.(*ssa.FieldAddr)
				if !ok || fieldNameOf(fa) != "decode" {
					continue
				}
				g, ok := fa.X.(*ssa.Global)
				if !ok || !strings.HasSuffix(g.Type().String(), "proto.codec") {
					continue
				}
				if f, ok := st.Val.(*ssa.Function); ok {
					decs[g.Name()] = f
				}
			}
		}
	}
	var names []string
	for n := range decs {
		names = append(names, n)
	}
	sort.Strings(names)
	n := 0
	for _, name := range names {
		fn := decs[name]
		var ptr *ssa.Parameter
		for _, p := range fn.Params {
			if p.Type().String() == "unsafe.Pointer" {
				ptr = p
			}
		}
		if ptr == nil || fn.Blocks == nil {
			continue
		}
		key := "decodestore:" + name
		var stores []*ssa.Store
		for _, blk := range fn.Blocks {
			for _, in := range blk.Instrs {
				if st, ok := in.(*ssa.Store); ok && stripConv(st.Addr) == ssa.Value(ptr) {
					stores = append(stores, st)
				}
			}
		}
		if len(stores) == 0 {
			// delegating decoders (append into *[]byte etc.) are out of this clause's reach
			continue
		}
		n++
		bad := ""
		for _, st := range stores {
			for _, e := range dominatingEdges(st.Block()) {
				// the guard depends on what is being stored (not merely on the error)
				valueDep := false
				for _, src := range origins(st.Val) {
					roots := map[ssa.Value]bool{}
					dependsOn(src, func(x ssa.Value) bool {
						if _, isEx := x.(*ssa.Extract); isEx {
							roots[x] = true
						}
						return false
					})
					if dependsOn(e.ifi.Cond, func(x ssa.Value) bool {
						return roots[x] && !strings.HasSuffix(x.Type().String(), "error") && x.Type().String() != "int"
					}) {
						valueDep = true
					}
				}
				if !valueDep {
					continue
				}
				// does the other branch reach a return whose error can be nil without storing?
				other := e.ifi.Block().Succs[1-e.succ]
				for blk := range reachableFrom(other, map[*ssa.BasicBlock]bool{st.Block(): true}) {
					ret, ok := blk.Instrs[len(blk.Instrs)-1].(*ssa.Return)
					if !ok || len(ret.Results) != 2 {
						continue
					}
					errV := ret.Results[1]
					if isNilConst(errV) {
						bad = c.InstrPos(st)
						continue
					}
					// an error produced on this path (fmt.Errorf, a sentinel) is a failure; the error
					// of the low-level decode call, nil here, is success
					if _, isEx := errV.(*ssa.Extract); isEx {
						bad = c.InstrPos(st)
					}
					if phi, isPhi := errV.(*ssa.Phi); isPhi {
						for _, pe := range phi.Edges {
							if isNilConst(pe) {
								bad = c.InstrPos(st)
							}
							if _, isEx := pe.(*ssa.Extract); isEx {
								bad = c.InstrPos(st)
							}
						}
					}
				}
			}
		}
		if bad != "" {
			b.bad(key, bad, fmt.Sprintf("%s stores the decoded value only when a test on that value holds, and returns success without storing otherwise: an explicit empty or zero occurrence of the field does not replace what an earlier occurrence (or the caller) left in the destination — 0a 01 78 0a 00 decodes to \"x\" where the last occurrence, the empty string, wins in every protobuf implementation", fn.Name()))
		} else {
			b.ok(key, c.FuncPos(fn), "the decoded value is stored on every path that succeeds")
		}
	}
	if n == 0 {
		b.und("decodestore:-", "-", "no scalar decode function that stores through its pointer found")
	}
	return b.out
}
