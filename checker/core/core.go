// Package core holds the plumbing shared by every rule of vcheck: loading the
// type-checked program and its SSA form from /repo's current working tree,
// the obligation record, evidence files, the known-findings register and replay.
//
// Nothing here executes code from /repo; everything is decided from source.
package core

import (
	"encoding/json"
	"fmt"
	"go/ast"
	"go/token"
	"go/types"
	"os"
	"path/filepath"
	"sort"
	"strings"
	"sync"

	"golang.org/x/tools/go/callgraph"
	"golang.org/x/tools/go/callgraph/cha"
	"golang.org/x/tools/go/callgraph/vta"
	"golang.org/x/tools/go/packages"
	"golang.org/x/tools/go/ssa"
	"golang.org/x/tools/go/ssa/ssautil"
)

// Verdicts of an obligation.
const (
	Discharged = "discharged"
	Violation  = "violation"
	Undecided  = "undecided" // counts as a violation of the check: never a vacuous pass
	Info       = "info"      // printed, never failed (e.g. 32-bit only observations)
)

// Obligation is one decided instance of a rule.
type Obligation struct {
	Rule    string   `json:"rule"`
	Key     string   `json:"key"` // semantic construct key: never a line number or source text
	Verdict string   `json:"verdict"`
	Pos     string   `json:"pos"`
	Msg     string   `json:"msg"`
	Path    []string `json:"path,omitempty"`
	Props   []string `json:"props"`
}

func (o Obligation) For(prop string) bool {
	for _, p := range o.Props {
		if p == prop {
			return true
		}
	}
	return false
}

// Config selects one build configuration of /repo.
type Config struct {
	RepoDir string
	GOARCH  string
	Tags    string
	// Patterns, when non-empty, replaces the default package patterns (used for fixtures).
	Patterns []string
}

func (c Config) String() string {
	s := c.GOARCH
	if s == "" {
		s = "amd64"
	}
	if c.Tags != "" {
		s += "+" + c.Tags
	}
	return s
}

// RepoPkgs are the packages of /repo in scope (tests excluded).
var RepoPkgs = []string{"./json", "./proto", "./thrift", "./iso8601", "./ascii", "./internal/..."}

const ModPath = "github.com/segmentio/encoding"

// Ctx is a loaded program.
type Ctx struct {
	Cfg     Config
	Fset    *token.FileSet
	Pkgs    []*packages.Package          // repo packages
	All     map[string]*packages.Package // every loaded package by path
	Prog    *ssa.Program
	SSAPkg  map[string]*ssa.Package // by import path
	cgOnce  sync.Once
	cg      *callgraph.Graph
	chaOnce sync.Once
	chaG    *callgraph.Graph
	allFns  map[*ssa.Function]bool
	fnIndex map[string]*ssa.Function
	Stats   map[string]int
}

// Load type-checks the repo packages (and their dependencies, from source) and builds SSA.
func Load(cfg Config) (*Ctx, error) {
	if cfg.RepoDir == "" {
		cfg.RepoDir = "/repo"
	}
	env := []string{}
	for _, kv := range os.Environ() {
		k := strings.SplitN(kv, "=", 2)[0]
		switch k {
		case "GOWORK", "GOFLAGS", "GOPROXY", "GOSUMDB", "GOTOOLCHAIN", "GOARCH", "GOOS", "CGO_ENABLED":
			continue
		}
		env = append(env, kv)
	}
	arch := cfg.GOARCH
	if arch == "" {
		arch = "amd64"
	}
	env = append(env, "GOWORK=off", "GOFLAGS=-mod=mod", "GOPROXY=off", "GOSUMDB=off",
		"GOTOOLCHAIN=local", "GOOS=linux", "GOARCH="+arch, "CGO_ENABLED=0")
	pc := &packages.Config{
		Mode: packages.LoadAllSyntax,
		Dir:  cfg.RepoDir,
		Env:  env,
	}
	if cfg.Tags != "" {
		pc.BuildFlags = []string{"-tags=" + cfg.Tags}
	}
	pats := cfg.Patterns
	if len(pats) == 0 {
		pats = RepoPkgs
	}
	pkgs, err := packages.Load(pc, pats...)
	if err != nil {
		return nil, fmt.Errorf("load: %w", err)
	}
	if len(pkgs) == 0 {
		return nil, fmt.Errorf("load: no packages matched %v in %s", pats, cfg.RepoDir)
	}
	c := &Ctx{Cfg: cfg, All: map[string]*packages.Package{}, SSAPkg: map[string]*ssa.Package{}, Stats: map[string]int{}}
	var errs []string
	packages.Visit(pkgs, nil, func(p *packages.Package) {
		c.All[p.PkgPath] = p
		for _, e := range p.Errors {
			errs = append(errs, p.PkgPath+": "+e.Error())
		}
	})
	if len(errs) > 0 {
		sort.Strings(errs)
		if len(errs) > 8 {
			errs = errs[:8]
		}
		return nil, fmt.Errorf("type-check errors (a failed check, never a pass):\n  %s", strings.Join(errs, "\n  "))
	}
	c.Pkgs = pkgs
	c.Fset = pkgs[0].Fset
	prog, _ := ssautil.AllPackages(pkgs, ssa.InstantiateGenerics)
	prog.Build()
	normalizeSpilledReturns(prog)
	c.Prog = prog
	for _, sp := range prog.AllPackages() {
		c.SSAPkg[sp.Pkg.Path()] = sp
	}
	c.Stats["packages"] = len(pkgs)
	return c, nil
}

// IsRepoPath reports whether an import path belongs to the module under analysis (or to a fixture).
func (c *Ctx) IsRepoPkg(p *types.Package) bool {
	if p == nil {
		return false
	}
	for _, rp := range c.Pkgs {
		if rp.Types == p {
			return true
		}
	}
	return false
}

// Pkg returns the repo package with the given last path element ("json", "proto", ...).
func (c *Ctx) Pkg(name string) *packages.Package {
	for _, p := range c.Pkgs {
		if p.Name == name || strings.HasSuffix(p.PkgPath, "/"+name) {
			return p
		}
	}
	return nil
}

// Dep returns any loaded package by import path.
func (c *Ctx) Dep(path string) *packages.Package { return c.All[path] }

// AllFunctions returns every SSA function of the program (cached).
func (c *Ctx) AllFunctions() map[*ssa.Function]bool {
	if c.allFns == nil {
		c.allFns = ssautil.AllFunctions(c.Prog)
		// ssautil does not enumerate the methods of generic named types (they have no run-time
		// method set until instantiated): add their generic bodies so that rules see them
		for _, p := range c.Pkgs {
			if p.Types == nil {
				continue
			}
			scope := p.Types.Scope()
			for _, name := range scope.Names() {
				tn, ok := scope.Lookup(name).(*types.TypeName)
				if !ok {
					continue
				}
				named, ok := tn.Type().(*types.Named)
				if !ok || named.TypeParams().Len() == 0 {
					continue
				}
				for i := 0; i < named.NumMethods(); i++ {
					if fn := c.Prog.FuncValue(named.Method(i)); fn != nil {
						var add func(f *ssa.Function)
						add = func(f *ssa.Function) {
							c.allFns[f] = true
							for _, a := range f.AnonFuncs {
								add(a)
							}
						}
						add(fn)
					}
				}
			}
		}
	}
	return c.allFns
}

// FuncOf returns the SSA function of a types.Func declared in a loaded package.
func (c *Ctx) FuncOf(obj *types.Func) *ssa.Function {
	if obj == nil {
		return nil
	}
	return c.Prog.FuncValue(obj)
}

// RepoFunctions returns the source-level functions (incl. anonymous ones) declared in repo packages,
// in a deterministic order.
func (c *Ctx) RepoFunctions() []*ssa.Function {
	var out []*ssa.Function
	for fn := range c.AllFunctions() {
		if c.InRepo(fn) && fn.Blocks != nil {
			out = append(out, fn)
		}
	}
	sort.Slice(out, func(i, j int) bool { return FuncKey(out[i]) < FuncKey(out[j]) })
	return out
}

// InRepo: the function's source lives in a repo package. Synthetic wrappers (thunks, bound
// method wrappers) have a nil Pkg: they are resolved through the method they wrap.
func (c *Ctx) InRepo(fn *ssa.Function) bool {
	if fn == nil {
		return false
	}
	if p := fn.Package(); p != nil {
		return c.IsRepoPkg(p.Pkg)
	}
	if fn.Parent() != nil {
		return c.InRepo(fn.Parent())
	}
	if o := fn.Object(); o != nil {
		return c.IsRepoPkg(o.Pkg())
	}
	if fn.Origin() != nil {
		return c.InRepo(fn.Origin())
	}
	return false
}

// CallGraph returns the VTA graph seeded by CHA.
func (c *Ctx) CallGraph() *callgraph.Graph {
	c.cgOnce.Do(func() {
		c.cg = vta.CallGraph(c.AllFunctions(), c.CHA())
	})
	return c.cg
}

func (c *Ctx) CHA() *callgraph.Graph {
	c.chaOnce.Do(func() { c.chaG = cha.CallGraph(c.Prog) })
	return c.chaG
}

// FuncKey is the stable, semantic name of a function: pkg.(Recv).Name or pkg.Outer$N for closures.
func FuncKey(fn *ssa.Function) string {
	if fn == nil {
		return "<nil>"
	}
	if fn.Parent() != nil {
		// closures: name by parent + ordinal among the parent's anonymous functions
		p := fn.Parent()
		for i, a := range p.AnonFuncs {
			if a == fn {
				return fmt.Sprintf("%s$%d", FuncKey(p), i+1)
			}
		}
		return FuncKey(p) + "$?"
	}
	pkg := ""
	if fn.Pkg != nil {
		pkg = fn.Pkg.Pkg.Name()
	} else if o := fn.Object(); o != nil && o.Pkg() != nil {
		pkg = o.Pkg().Name()
	}
	if recv := fn.Signature.Recv(); recv != nil {
		t := recv.Type()
		ptr := ""
		if p, ok := t.(*types.Pointer); ok {
			t = p.Elem()
			ptr = "*"
		}
		name := t.String()
		if n, ok := t.(*types.Named); ok {
			name = n.Obj().Name()
			if n.Obj().Pkg() != nil && pkg == "" {
				pkg = n.Obj().Pkg().Name()
			}
		}
		return fmt.Sprintf("%s.(%s%s).%s", pkg, ptr, name, fn.Name())
	}
	return pkg + "." + fn.Name()
}

// Lookup finds a repo function by its FuncKey (e.g. "json.(encoder).encodeString", "proto.decodeVarint").
func (c *Ctx) Lookup(key string) *ssa.Function {
	if c.fnIndex == nil {
		c.fnIndex = map[string]*ssa.Function{}
		for fn := range c.AllFunctions() {
			if fn.Synthetic != "" && fn.Parent() == nil && fn.Pkg == nil {
				continue
			}
			if c.InRepo(fn) {
				k := FuncKey(fn)
				if old, ok := c.fnIndex[k]; !ok || (old.Blocks == nil && fn.Blocks != nil) {
					c.fnIndex[k] = fn
				}
			}
		}
	}
	return c.fnIndex[key]
}

// PosOf renders a position relative to the repository root.
func (c *Ctx) PosOf(p token.Pos) string {
	if !p.IsValid() {
		return "-"
	}
	pos := c.Fset.Position(p)
	f := pos.Filename
	if rel, err := filepath.Rel(c.Cfg.RepoDir, f); err == nil && !strings.HasPrefix(rel, "..") {
		f = rel
	} else if i := strings.Index(f, "/pkg/mod/"); i >= 0 {
		f = f[i+9:]
	} else if i := strings.Index(f, "/src/"); i >= 0 {
		f = "GOROOT" + f[i:]
	}
	return fmt.Sprintf("%s:%d", f, pos.Line)
}

// FuncPos gives a useful position for a function (its declaration).
func (c *Ctx) FuncPos(fn *ssa.Function) string {
	if fn == nil {
		return "-"
	}
	if fn.Pos().IsValid() {
		return c.PosOf(fn.Pos())
	}
	if fn.Parent() != nil {
		return c.FuncPos(fn.Parent())
	}
	return "-"
}

// InstrPos returns the best available position for an instruction (falls back to its block's
// neighbours and finally to the function).
func (c *Ctx) InstrPos(in ssa.Instruction) string {
	if in == nil {
		return "-"
	}
	if in.Pos().IsValid() {
		return c.PosOf(in.Pos())
	}
	if v, ok := in.(ssa.Value); ok {
		_ = v
	}
	b := in.Block()
	if b != nil {
		for _, x := range b.Instrs {
			if x.Pos().IsValid() {
				return c.PosOf(x.Pos())
			}
		}
		return c.FuncPos(b.Parent())
	}
	return "-"
}

// FileOf returns the syntax file and package containing pos.
func (c *Ctx) FileOf(pos token.Pos) (*ast.File, *packages.Package) {
	for _, p := range c.All {
		for _, f := range p.Syntax {
			if f.Pos() <= pos && pos <= f.End() {
				return f, p
			}
		}
	}
	return nil, nil
}

// DeclOf returns the FuncDecl of a declared function.
func (c *Ctx) DeclOf(obj *types.Func) (*ast.FuncDecl, *packages.Package) {
	if obj == nil {
		return nil, nil
	}
	f, p := c.FileOf(obj.Pos())
	if f == nil {
		return nil, nil
	}
	for _, d := range f.Decls {
		if fd, ok := d.(*ast.FuncDecl); ok && fd.Name.Pos() == obj.Pos() {
			return fd, p
		}
	}
	return nil, p
}

// ---------------------------------------------------------------------------------------------
// known findings

type Known struct {
	Property  string `json:"property"`
	Rule      string `json:"rule"`
	Key       string `json:"key"`
	Status    string `json:"status"` // "known" | "fixed"
	Commit    string `json:"commit,omitempty"`
	WhatFails string `json:"what_fails"`
	Finding   string `json:"finding,omitempty"` // id in DESIGN.md §5
}

type KnownFile struct {
	Comment  string  `json:"comment"`
	Findings []Known `json:"findings"`
}

func LoadKnown(path string) (*KnownFile, error) {
	kf := &KnownFile{}
	data, err := os.ReadFile(path)
	if err != nil {
		if os.IsNotExist(err) {
			return kf, nil
		}
		return nil, err
	}
	if err := json.Unmarshal(data, kf); err != nil {
		return nil, fmt.Errorf("%s: %w", path, err)
	}
	return kf, nil
}

func (kf *KnownFile) Match(prop string, o Obligation) *Known {
	for i := range kf.Findings {
		k := &kf.Findings[i]
		if k.Status == "known" && k.Property == prop && k.Rule == o.Rule && k.Key == o.Key {
			return k
		}
	}
	return nil
}

// normalizeSpilledReturns undoes, for analysis purposes, the way go/ssa builds functions that
// contain defer statements: every `return a, b` becomes stores into result cells, rundefers,
// loads of the cells and a return of the loads. The loads hide which value each return hands
// back; they are replaced in place by the values stored just before in the same block (the cells
// are only written by the return sequence unless the function has named results that a deferred
// closure modifies — then the Alloc has a name and is left alone).
func normalizeSpilledReturns(prog *ssa.Program) {
	for fn := range ssautil.AllFunctions(prog) {
		if fn.Recover == nil || fn.Blocks == nil {
			continue
		}
		for _, blk := range fn.Blocks {
			n := len(blk.Instrs)
			if n == 0 {
				continue
			}
			ret, ok := blk.Instrs[n-1].(*ssa.Return)
			if !ok {
				continue
			}
			for i, res := range ret.Results {
				ld, ok := res.(*ssa.UnOp)
				if !ok || ld.Op != token.MUL {
					continue
				}
				cell, ok := ld.X.(*ssa.Alloc)
				if !ok || cell.Comment != "" {
					continue
				}
				var val ssa.Value
				for _, in := range blk.Instrs {
					if in == ssa.Instruction(ld) {
						break
					}
					if st, ok := in.(*ssa.Store); ok && st.Addr == ssa.Value(cell) {
						val = st.Val
					}
				}
				if val == nil {
					continue
				}
				ret.Results[i] = val
				if refs := val.Referrers(); refs != nil {
					*refs = append(*refs, ret)
				}
			}
		}
	}
}
